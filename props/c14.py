"""
C14 - the extinction law is normalised at V, unit-free and zero outside its table.

Oracle: direct formula -0.4*chi(lambda)/chi(0.55um) with an own linear interpolation; metamorphic invariance under
chi -> c*chi, opacity / wavelength units; equality after pickle, to_table/from_table and from_file (generated text file
with extra columns and a columns= selection).
"""
import os
import pickle

import numpy as np
from hypothesis import strategies as st

from vlib import gen
from vlib import oracle_fit as of
from vlib.runner import fail, must_succeed

PROPERTY_ID = 'C14'
LEVEL = 'exploration'
DESIGN_REF = 'DESIGN.md section 3, C14'
RULE = ('Hypothesis generates opacity tables (2..200 rows, strictly increasing wavelengths spanning 0.55 micron, optionally '
        'with a node exactly at 0.55, positive opacities over 6 decades), 1..12 query wavelengths (inside, outside on both '
        'sides, exactly on nodes incl. the end nodes, 0.55 itself) in a generated length unit, table units among '
        'micron/nm/cm/m/Angstrom and cm^2/g / m^2/kg, a scale constant, and a text file layout (2..5 columns, column '
        'selection). One evaluation = one table with all relations. Non-trivial = >= 3 rows and queries both inside and '
        'outside the table; distinct = distinct canonical JSON.')
RULE += (' ' + 'Also varied: tables that start or end exactly at 0.55 micron, table wavelengths typed in their unit with a plain decimal factor (not converted by astropy), scalar queries, wavelengths re-assigned on a queried law.')
RULE += (' ' + 'The table is edited in place after from_table / to_table; the same numbers are asked for in mm / nm right after another unit.')
RULE += (' ' + 'from_file is called with keyword arguments, with positional arguments in the documented order, or with the documented defaults left out.')
RULE += (' ' + 'The queries are also handed over as whole numbers (integer dtype) of the query unit.')
RULE += (' ' + 'Rows of the generated law files may carry # remarks, and a column that is not read may hold labels.')
ASSUMPTIONS = [
    'tolerance 1e-12 relative (unit conversions round to ~1e-16); exactly -0.4 at 0.55 micron within 1e-12',
    'a query on an END node expressed in a different unit than the table may round to either side of the boundary: '
    'both the node value and 0 are accepted there',
]

UNITS = ['um', 'nm', 'cm', 'm', 'AA']


def unit(name):
    from astropy import units as u
    return {'um': u.micron, 'nm': u.nm, 'cm': u.cm, 'm': u.m, 'AA': u.AA}[name]


@st.composite
def cases(draw, max_rows=40):
    law = draw(gen.laws(draw(st.sampled_from([3, 8, max_rows]))))
    # "covers 0.55 micron" includes tables that START or END exactly at V (e.g. a V..L law)
    vend = draw(st.sampled_from([None, None, None, None, 'first', 'last']))
    if vend is not None:
        keep = [(w, c) for w, c in zip(law['wav'], law['chi']) if (w > 0.55 * 1.0005 if vend == 'first' else w < 0.55 / 1.0005)]
        keep = ([(0.55, law['chi'][0])] + keep) if vend == 'first' else (keep + [(0.55, law['chi'][-1])])
        if len(keep) >= 2:
            law = {'wav': [w for w, _ in keep], 'chi': [c for _, c in keep]}
    wav = law['wav']
    qs = []
    for _ in range(draw(st.integers(1, 12))):
        kind = draw(st.sampled_from(['in', 'in', 'node', 'end', 'below', 'above', 'V']))
        if kind == 'in':
            q = draw(gen.logfloat(wav[0], wav[-1]))
        elif kind == 'node':
            q = draw(st.sampled_from(wav))
        elif kind == 'end':
            q = draw(st.sampled_from([wav[0], wav[-1]]))
        elif kind == 'below':
            q = wav[0] / draw(gen.logfloat(1.0001, 100.))
        elif kind == 'above':
            q = wav[-1] * draw(gen.logfloat(1.0001, 100.))
        else:
            q = 0.55
        qs.append(q)
    ncol = draw(st.integers(2, 5))
    cw = draw(st.integers(0, ncol - 1))
    cc = draw(st.integers(0, ncol - 1).filter(lambda v: v != cw)) if ncol > 2 else 1 - cw
    return {'law': law, 'queries': qs, 'query_unit': draw(st.sampled_from(UNITS)),
            'table_wav_unit': draw(st.sampled_from(UNITS)), 'table_chi_unit': draw(st.sampled_from(['cm2/g', 'm2/kg'])),
            # how the table is expressed in its unit: converted by astropy, or typed in that unit (plain decimal factor)
            'table_factor': draw(st.sampled_from(['astropy', 'plain'])),
            'scale': draw(gen.logfloat(1e-6, 1e6)), 'file_cols': ncol, 'file_wav_col': cw, 'file_chi_col': cc,
            'file_wav_unit': draw(st.sampled_from(['um', 'nm', 'AA'])), 'file_chi_unit': draw(st.sampled_from(['cm2/g', 'm2/kg'])),
            # from_file(filename, columns, wav_unit, chi_unit): arguments by keyword, by position, or left out where the
            # documented default says the same
            'file_call': draw(st.sampled_from(['keywords', 'positional', 'positional_wav', 'defaults'])),
            # annotations a tabulated law may carry: remarks after '#' on its rows, a label in a column that is not read
            'file_notes': draw(st.sampled_from(['none', 'none', 'remark_first_rows', 'remark_every_row', 'label_column']))}


PLAIN = {'um': 1., 'nm': 1e3, 'cm': 1e-4, 'm': 1e-6, 'AA': 1e4}


def make_law(wav_um, chi_cgs, wav_unit, chi_unit, factor='astropy'):
    from astropy import units as u
    from sedfitter.extinction import Extinction
    e = Extinction()
    w = np.array(wav_um) * u.micron
    c = np.array(chi_cgs) * (u.cm ** 2 / u.g)
    if factor == 'plain' and wav_unit != 'um':
        e.wav = np.array([x * PLAIN[wav_unit] for x in wav_um]) * unit(wav_unit)
    else:
        e.wav = w if wav_unit == 'um' else w.to(unit(wav_unit))
    e.chi = c if chi_unit == 'cm2/g' else c.to(u.m ** 2 / u.kg)
    return e


def sensitivity(wav, chi, x):
    """|d ln chi / d ln lambda| at x (largest of the adjacent segments): how a 1-ulp change of a wavelength
    caused by a unit conversion is amplified in the interpolated opacity"""
    c = of.interp_linear(wav, chi, x)
    if c is None:
        return 0.
    s = 0.
    for i in range(len(wav) - 1):
        if wav[i] <= x <= wav[i + 1]:
            s = max(s, abs((chi[i + 1] - chi[i]) / (wav[i + 1] - wav[i])) * x / c)
    return s


def check_values(got, want, queries, ends, exact_unit, what, sig, law=None):
    got = np.asarray(got, dtype=float)
    if got.shape != (len(queries),):
        fail('%s: result has shape %r for %d wavelengths' % (what, got.shape, len(queries)), sig)
    for q, g, w in zip(queries, got, want):
        rel = 1e-12
        if law is not None:
            # legal interpolation formulas differ by ~eps * (local slope / local value); unit conversions add a 1-ulp shift
            rel += (2e-15 if not exact_unit else 4e-16) * (sensitivity(law['wav'], law['chi'], 0.55) +
                                                          sensitivity(law['wav'], law['chi'], q))
        ok = abs(g - w) <= rel * max(1., abs(w))
        near_end = any(abs(q - e) <= 1e-12 * e for e in ends)
        if not ok and not exact_unit and near_end and abs(g) <= 0.:
            ok = True  # a query on (or within rounding of) an end node in another unit may round outside the table
        if not ok and not exact_unit and near_end and w == 0.:
            ok = True
        if not ok:
            fail('%s: at %r micron got %r, formula gives %r' % (what, q, float(g), w), sig)


def run_case(case, ctx):
    from astropy import units as u
    from sedfitter.extinction import Extinction
    law = case['law']
    wav, chi = law['wav'], law['chi']
    qs = case['queries']
    want = of.extinction_pattern(wav, chi, qs)
    ends = (wav[0], wav[-1])
    labels = {'rows<=3' if len(wav) <= 3 else 'rows>3', 'query_unit_' + case['query_unit']}

    def query(e, unit_name):
        q = np.array(qs) * u.micron
        if unit_name != 'um':
            q = q.to(unit(unit_name))
        with must_succeed('get_av'):
            return e.get_av(q)

    # 1. direct formula, everything in micron / cm2/g
    base = make_law(wav, chi, 'um', 'cm2/g')
    check_values(query(base, 'um'), want, qs, ends, True, 'table in micron, queries in micron', 'c14:formula', law)
    # -0.4 at V and 0 outside, explicitly
    with must_succeed('get_av'):
        v = float(base.get_av([0.55] * u.micron)[0])
    if not (abs(v + 0.4) <= 1e-12):
        fail('extinction pattern at 0.55 micron is %r, not -0.4' % v, 'c14:normalisation')
    out = [wav[0] * 0.5, wav[-1] * 2.]
    with must_succeed('get_av'):
        vo = base.get_av(np.array(out) * u.micron)
    if any(float(x) != 0. for x in vo):
        fail('outside the table (at %r micron) the pattern is %r, not 0' % (out, list(vo)), 'c14:outside_not_zero')
    # queries typed as whole numbers of the query unit (the integer wavelength column of a table): the answer is the law at
    # the wavelengths those numbers state, in double precision. (Single-precision queries are not examined: astropy converts
    # their unit in single precision, which moves the wavelength by up to 6e-8 and the answer by as much times the local
    # slope - no sharper statement can be decided.)
    fac = PLAIN[case['query_unit']]
    vals = np.array([max(1, int(round(min(q * fac, 1e15)))) for q in qs])
    q_um = [float(v) / fac for v in vals]
    with must_succeed('get_av with an integer-typed query'):
        got_t = base.get_av(u.Quantity(vals, unit(case['query_unit']), dtype=vals.dtype))
    check_values(got_t, of.extinction_pattern(wav, chi, q_um), q_um, ends, False,
                 'table in micron, queries typed %s in %s' % (vals.dtype, case['query_unit']), 'c14:typed_query', law)
    labels.add('typed_queries')
    # scalar (0-d) queries: one wavelength at a time must give the same numbers as the array query
    for q, w in zip(qs, want):
        with must_succeed('get_av with a scalar Quantity'):
            g = base.get_av(q * u.micron)
        g = np.asarray(getattr(g, 'value', g), dtype=float)
        if g.size != 1:
            fail('scalar query returned %d values' % g.size, 'c14:scalar_query')
        check_values(g.reshape(1), [w], [q], ends, True, 'scalar query', 'c14:scalar_query', law)
    # the SAME numbers asked for in other length units, one call after the other on the same object: each answer belongs to
    # the wavelengths that were asked for, not to the previous question
    for un_, fac in ((u.mm, 1e3), (u.nm, 1e-3), (u.micron, 1.)):
        q2 = [q * fac for q in qs]
        with must_succeed('get_av'):
            g = base.get_av(np.array(qs) * un_)
        check_values(g, of.extinction_pattern(wav, chi, q2), q2, ends, fac == 1., 'the same numbers given in %s right after another unit' % un_,
                     'c14:answer_of_previous_query', law)
    labels.add('same_numbers_other_unit')
    # a law object that was already queried gets a corrected wavelength grid (same length): answers follow the new grid
    if len(wav) >= 3:
        moved = [wav[0]] + [w * 1.07 if wav[0] < w * 1.07 < wav[-1] and not (abs(w * 1.07 - 0.55) <= 1e-9) else w for w in wav[1:-1]] + [wav[-1]]
        moved = sorted(set(moved))
        if len(moved) == len(wav) and moved != wav:
            live = make_law(wav, chi, 'um', 'cm2/g')
            query(live, 'um')
            with must_succeed('assigning new wavelengths to a queried law'):
                live.wav = np.array(moved) * u.micron
            want_moved = of.extinction_pattern(moved, chi, qs)
            check_values(query(live, 'um'), want_moved, qs, ends, True, 'after re-assigning wav on a queried object',
                         'c14:stale_after_reassignment', {'wav': moved, 'chi': chi})
            labels.add('wav_reassigned_after_query')
    # 2. query units
    check_values(query(base, case['query_unit']), want, qs, ends, case['query_unit'] == 'um',
                 'queries in %s' % case['query_unit'], 'c14:query_unit', law)
    # 3. table units and scale constant
    other = make_law(wav, [c * case['scale'] for c in chi], case['table_wav_unit'], case['table_chi_unit'],
                     case.get('table_factor', 'astropy'))
    if 0.55 in ends:
        labels.add('table_%s_at_V' % ('starts' if wav[0] == 0.55 else 'ends'))
    check_values(query(other, case['query_unit']), want, qs, ends,
                 case['query_unit'] == 'um' and case['table_wav_unit'] == 'um',
                 'chi x %r, table in %s and %s' % (case['scale'], case['table_wav_unit'], case['table_chi_unit']),
                 'c14:unit_or_scale_dependence', law)
    # 4. pickle / table round trips
    with must_succeed('pickle round trip'):
        p = pickle.loads(pickle.dumps(other, 2))
    with must_succeed('to_table/from_table'):
        tab = other.to_table()
        t = Extinction.from_table(tab)
        # the table the law was built from (and the one it was exported to) goes on living in the caller's hands: editing
        # it afterwards must change neither law
        tab['chi'][:] = tab['chi'][::-1].copy() * 3.
        tab['wav'][:] = tab['wav'] * 1.5
        try:
            tab['wav'].convert_unit_to(u.AA if case['table_wav_unit'] != 'AA' else u.micron)
        except Exception:  # noqa: not all column types convert in place; the edits above already happened
            pass
    labels.add('table_edited_after_conversion')
    for e, what in ((p, 'after pickling'), (t, 'after to_table/from_table (table edited afterwards)'),
                    (other, 'the law whose exported table was edited')):
        check_values(query(e, case['query_unit']), want, qs, ends,
                     case['query_unit'] == 'um' and case['table_wav_unit'] == 'um', what, 'c14:round_trip', law)
    # 5. text file reader with extra columns and a column selection
    with ctx.tempdir() as d:
        path = os.path.join(d, 'law.txt')
        fw = {'um': 1., 'nm': 1e3, 'AA': 1e4}[case['file_wav_unit']]
        fc = {'cm2/g': 1., 'm2/kg': 0.1}[case['file_chi_unit']]
        with open(path, 'w') as f:
            for i, (w, c) in enumerate(zip(wav, chi)):
                cols = ['%r' % (1000. + i * 3.5 + j) for j in range(case['file_cols'])]
                cols[case['file_wav_col']] = repr(w * fw)
                cols[case['file_chi_col']] = repr(c * fc)
                notes = case.get('file_notes', 'none')
                if notes == 'label_column' and case['file_cols'] > 2:
                    # one of the columns that are not read is a label
                    spare = [j for j in range(case['file_cols']) if j not in (case['file_wav_col'], case['file_chi_col'])]
                    cols[spare[-1]] = 'band%d' % i
                line = ' '.join(cols)
                if notes == 'remark_every_row' or (notes == 'remark_first_rows' and i < 4):
                    line += '   # ' + ['U', 'B', 'V', 'R'][i % 4]
                f.write(line + '\n')
        with must_succeed('Extinction.from_file'):
            kw = {}
            columns = (case['file_wav_col'], case['file_chi_col'])
            wu = unit(case['file_wav_unit'])
            cu = (u.cm ** 2 / u.g) if case['file_chi_unit'] == 'cm2/g' else (u.m ** 2 / u.kg)
            call = case.get('file_call', 'keywords')
            if call == 'positional':
                e = Extinction.from_file(path, columns, wu, cu)
            elif call == 'positional_wav':
                e = Extinction.from_file(path, columns, wu, chi_unit=cu)
            else:
                if columns != (0, 1) or case['file_cols'] > 2:
                    kw['columns'] = columns
                if not (call == 'defaults' and case['file_wav_unit'] == 'um'):
                    kw['wav_unit'] = wu
                if not (call == 'defaults' and case['file_chi_unit'] == 'cm2/g'):
                    kw['chi_unit'] = cu
                e = Extinction.from_file(path, **kw)
            labels.add('from_file_call=' + call)
        # file values were scaled by non-power-of-two factors: compare at 1e-12 but ends may flip
        check_values(query(e, case['query_unit']), want, qs, ends, False,
                     'read from a %d-column text file (columns %d,%d)' % (case['file_cols'], case['file_wav_col'],
                                                                          case['file_chi_col']), 'c14:file_reader', law)
        labels.add('file_cols=%d' % case['file_cols'])
    inside = any(wav[0] < q < wav[-1] for q in qs)
    outside = any(q < wav[0] or q > wav[-1] for q in qs)
    if any(q in wav for q in qs):
        labels.add('query_on_node')
    if outside:
        labels.add('query_outside')
    return labels, len(wav) >= 3 and inside and outside


ENTRIES = {'law': run_case}


def plan(ctx):
    mr = 40 if ctx.quick else 200
    ctx.run_given('law', cases(mr), ctx.scale(120, 2500))
