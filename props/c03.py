"""
C03 - data flags mean what the data-format page says.

Every flag vector in {0,1,2,3,4,9}^n is enumerated (n<=4 in the quick tier, n<=5 thorough; plus a seeded sample of
n=5 in quick) and crossed with Hypothesis-generated scenarios (law, filters, grid, photometry pools), in both fitting
modes.  Oracle: the C01/C02 reference on the base source + metamorphic pairs (ignored content, limits off,
confidence 0, flag 4 == transformed flag 1).
"""
import math
import itertools

import numpy as np

from hypothesis import strategies as st

from vlib import gen
from vlib import oracle_fit as of
from vlib.runner import Violation, fail, must_succeed, quiet
from props import c02 as c02mod

PROPERTY_ID = 'C03'
LEVEL = 'exploration'
DESIGN_REF = 'DESIGN.md section 3, C03'
EXHAUSTIVE = True
EXHAUSTIVE_NOTE = ('the flag-vector dimension is enumerated completely ({0,1,2,3,4,9}^n for n=1..4 in the quick tier, '
                   'n=1..5 in the thorough tier; quick adds a seeded 1/6 sample of n=5); the photometry / grid crossed '
                   'with each vector is sampled by Hypothesis')
RULE = ('Each shard draws scenarios (extinction law, n filters with pairwise different extinction coefficients, 3 models, '
        'per-band pools of fitted / log / limit / ignored values with confidences from {0,(0,1),1}, A_V range) with '
        'Hypothesis and evaluates its slice of all 6^n flag vectors in each, in the distance-independent and the '
        'distance-dependent mode. One evaluation = one (scenario, slice) with 4-6 fits per flag vector; '
        'vector_evaluations counts (vector, scenario) pairs. Non-trivial = the slice contains a non-singular vector (>=2 fitted '
        'points in 2-D, >=1 in 3-D) that also contains one of {0,9,2,3,4}; distinct = distinct canonical JSON.')
RULE += (' ' + 'Also varied: a ~1 mJy flag-1 point whose flag-4 twin carries exactly 0.0; fitters built without the bands flagged 0 (also with remove_resolved=True).')
RULE += (' ' + 'For a third of the vectors the Source object that was fitted is edited in place (one band switched to flag 0, values of ignored bands replaced) and fitted again; it must fit like a fresh source with those flags.')
RULE += (' ' + 'A quarter of the scenarios use whole-number photometry passed as integer arrays (the ignored values of one variant are non-integral, which changes the dtype of the whole array).')
RULE += (' ' + 'The replacement values of ignored points include ordinary fluxes with NaN / inf / 1e200 / 0 errors and NaN fluxes.')
ASSUMPTIONS = [
    'singular vectors (<2 fitted points in 2-D / none in 3-D) are enumerated but only n_data is asserted on them',
    'paired runs are compared per model name with 1e-9 relative tolerance (+1e-13*cond on parameters): a legal '
    'implementation may drop ignored columns and change the summation order',
    'limit penalties within 1e-9 dex of the limit are accepted either way',
]

IGN = (0, 9)


@st.composite
def scenario(draw, n, mode):
    law = draw(gen.laws(8))
    # n filters inside the law with pairwise distinct, non-zero k
    wavs = []
    ks = []
    guard = 0
    while len(wavs) < n:
        w = draw(gen.logfloat(law['wav'][0] * 1.001, law['wav'][-1] / 1.001))
        kk = of.extinction_pattern(law['wav'], law['chi'], [w])[0]
        guard += 1
        if guard < 40 and (kk == 0. or any(abs(kk - x) <= 0.05 * max(abs(kk), abs(x)) for x in ks)):
            continue
        while any(abs(w - x) <= 1e-6 * x for x in wavs):
            w = w * 1.0007   # two filters never share a wavelength (a cube cannot tabulate one wavelength twice)
        wavs.append(w)
        ks.append(kk)
    filters = [{'name': 'F%d' % j, 'wav': w} for j, w in enumerate(wavs)]
    pools = []
    for j in range(n):
        lf = draw(st.floats(-3., 3., allow_nan=False))
        pools.append({
            'fit1': [10. ** lf, 10. ** lf * draw(gen.logfloat(1e-2, 0.5))],
            'fit4': [lf + draw(st.floats(-0.3, 0.3, allow_nan=False)), draw(gen.logfloat(5e-3, 0.3))],
            'lim': [10. ** (lf + draw(st.floats(-1.5, 1.5, allow_nan=False))),
                    draw(st.sampled_from([0., 1., 0.5, 0.9, 0.05]))],
            'ignA': [draw(gen.ignored_values), draw(gen.ignored_values)],
            # (a point kept for plotting only may have no error estimate at all, or a placeholder no arithmetic survives)
            'ignB': draw(st.one_of(st.tuples(gen.ignored_values, gen.ignored_values).map(list),
                                   st.tuples(gen.ignored_values, gen.ignored_values).map(list),
                                   st.tuples(gen.logfloat(1e-3, 1e3), st.sampled_from([float('nan'), float('inf'), 1e200, 0.])).map(list),
                                   st.just([float('nan'), float('nan')]))),
        })
    int_pools = draw(st.integers(0, 3)) == 0
    if int_pools:
        # photometry in whole mJy (counts, rounded catalogues): fitted and limit values become integers, the ignored values
        # of variant A too (-999 placeholders), those of variant B do not (-999.5)
        for p_ in pools:
            F = float(max(1, round(p_['fit1'][0])))
            p_['fit1'] = [F, float(max(1, round(p_['fit1'][1])))]
            p_['lim'] = [float(max(1, round(p_['lim'][0]))), 1. if p_['lim'][1] >= 0.5 else 0.]
            p_['ignA'] = [-999., -999.]
            p_['ignB'] = [-999.5, 0.25]
    if not int_pools and draw(st.integers(0, 3)) == 0:
        # a flag-1 point of about 1 mJy whose transform log10 F - 0.5 (sigma/F)^2 / ln10 is 0 (to rounding): its flag-4 twin
        # carries the value 0.0 itself, a legal log10 flux
        j0 = draw(st.integers(0, n - 1))
        r = draw(gen.logfloat(1e-2, 0.5))
        F0 = 10. ** (0.5 * r * r / of.LN10)
        pools[j0]['fit1'] = [F0, r * F0]
        pools[j0]['twin_zero'] = True
    sc = {'law': law, 'filters': filters, 'pools': pools, 'mode': mode, 'int_pools': int_pools,
          'flag_dtype': draw(gen.FLAG_DTYPES),
          'av_range': draw(st.sampled_from([[0., 10.], [-1e3, 1e3], [0., 1.], [2., 2.]])),
          'theta': draw(st.lists(st.floats(0.5, 10., allow_nan=False), min_size=n, max_size=n))}
    if mode == '2d':
        sc['grid'] = {'names': ['mA', 'mB', 'mC'],
                      'logflux': [[p['fit4'][0] + draw(st.floats(-1., 1., allow_nan=False)) for p in pools] for _ in range(3)]}
        sc['format'] = draw(st.sampled_from(['v1', 'v1', 'v2wav']))
    else:
        g = draw(gen.grids_3d(n, 2, 2, apmin=2, apmax=4))
        g['names'] = ['mA', 'mB']
        sc['grid'] = g
        sc['setup'] = draw(gen.distance_setup(g['apertures'], n))
        sc['theta'] = sc['setup']['theta']
        sc['format'] = draw(st.sampled_from(['v1', 'v1', 'v2name']))
        # rescale photometry pools to the level of the models at mid distance so that fits are meaningful
    sc['memmap'] = False
    return sc


@st.composite
def cases(draw, n, mode, shard, nshards, rot):
    return {'n': n, 'mode': mode, 'scenario': draw(scenario(n, mode)), 'slice': [shard, nshards, rot], 'vectors': None}


def vectors_of(case):
    if case.get('vectors') is not None:
        return [tuple(v) for v in case['vectors']]
    shard, nshards, rot = case['slice']
    out = []
    for i, v in enumerate(itertools.product(gen.FLAGS, repeat=case['n'])):
        if (i + rot) % nshards == shard:
            out.append(v)
    return out


def make_source(sc, vec, ign='ignA', limits='asis', fit1_as4=False, nine_as_zero=False):
    flags, flux, err = [], [], []
    for j, f in enumerate(vec):
        p = sc['pools'][j]
        if f in IGN:
            flags.append(0 if nine_as_zero else f)
            flux.append(p[ign][0])
            err.append(p[ign][1])
        elif f == 1:
            if fit1_as4:
                F, s = p['fit1']
                flags.append(4)
                t = math.log10(F) - 0.5 * (s / F) ** 2 / of.LN10
                if p.get('twin_zero') and abs(t) < 1e-14:
                    t = 0.
                flux.append(t)
                err.append(abs(s / F) / of.LN10)
            else:
                flags.append(1)
                flux.append(p['fit1'][0])
                err.append(p['fit1'][1])
        elif f == 4:
            flags.append(4)
            flux.append(p['fit4'][0])
            err.append(p['fit4'][1])
        else:
            if limits == 'off':
                flags.append(0)
                flux.append(p['lim'][0])
                err.append(p['lim'][1])
            elif limits == 'conf0':
                flags.append(f)
                flux.append(p['lim'][0])
                err.append(0.)
            else:
                flags.append(f)
                flux.append(p['lim'][0])
                err.append(p['lim'][1])
    src = {'name': 'src', 'x': 0., 'y': 0., 'flags': flags, 'flux': flux, 'err': err, 'flag_dtype': sc.get('flag_dtype')}
    if sc.get('int_pools') and all(abs(v) < 1e15 and float(v) == int(v) for v in flux):
        # whole-number photometry reaches the fitter as the integer arrays numpy makes of it; one non-integral value
        # anywhere (e.g. in an ignored band) makes the whole array floating point - the fits must not depend on that
        src['int_arrays'] = True
    return src


def by_name(info):
    return dict((str(n).strip(), (float(info.av[i]), float(info.sc[i]), float(info.chi2[i]), i))
                for i, n in enumerate(info.model_name))


class Env(object):
    def __init__(self, sc, fitter, k, grids, directory=None, dr=None, resolved_fitter=None):
        self.sc, self.fitter, self.k, self.grids = sc, fitter, k, grids
        self.directory, self.dr = directory, dr
        self.resolved_fitter = resolved_fitter   # same package, remove_resolved=True (per-file packages only)
        self.reduced = {}

    def reduced_fitter(self, keep, remove_resolved):
        """a fitter that does not know the bands that are not in `keep` at all"""
        key = (tuple(keep), remove_resolved)
        if key not in self.reduced:
            sub = dict(self.sc)
            sub['filters'] = [self.sc['filters'][j] for j in keep]
            sub['theta'] = [self.sc['theta'][j] for j in keep]
            with must_succeed('Fitter() on a subset of the filters'), quiet():
                self.reduced[key] = make_fitter_rr(self.directory, sub, self.sc['av_range'], self.dr, remove_resolved)
        return self.reduced[key]

    def fit(self, src, what):
        so = gen.source_object(src)
        with must_succeed('Fitter.fit (%s, flags %r)' % (what, src['flags'])), quiet():
            info = self.fitter.fit(so)
        return so, info

    def refs(self, src):
        sc = self.sc
        bands = of.transform_source(src['flags'], src['flux'], src['err'])
        lo, hi = sc['av_range']
        if sc['mode'] == '2d':
            return [of.Ref2D(bands, sc['grid']['logflux'][m], self.k, lo, hi) for m in range(len(sc['grid']['names']))]
        return [[of.Ref3D(bands, gen.tables_3d(sc, m)[0], gen.tables_3d(sc, m)[1], sc['theta'], self.k, lo, hi, g)
                 for m in range(len(sc['grid']['names']))] for g in self.grids]

    def check_reference(self, src, info, vec):
        sc = self.sc
        names = sc['grid']['names']
        res = by_name(info)
        if sorted(res) != sorted(names):
            fail('flags %r: result lists models %r' % (vec, sorted(res)), 'c03:model_set')
        refs = self.refs(src)
        for m, name in enumerate(names):
            av, s, chi2, _ = res[name]
            what = 'flags %r model %s' % (list(src['flags']), name)
            if sc['mode'] == '2d':
                bad = of.check_fit_2d(refs[m], av, s, chi2, what=what)
                if bad is not None:
                    fail(bad[1], 'c03:' + bad[0].split(':')[1])
            else:
                problems = []
                for g in refs:
                    r = c02mod.check_one(g[m], av, s, chi2, what, False)
                    if r is None or r == 'skip':
                        problems = []
                        break
                    problems.append(r)
                if problems:
                    fail(problems[0][1], 'c03:' + problems[0][0].split(':')[1])
        return refs

    def same(self, a, b, refs, what, sig):
        """Two runs that must agree (per model name)."""
        ra, rb = by_name(a), by_name(b)
        for m, name in enumerate(self.sc['grid']['names']):
            (av1, sc1, c1, _), (av2, sc2, c2, _) = ra[name], rb[name]
            if self.sc['mode'] == '2d':
                ref = refs[m]
                scale = max(float(ref.T), float(ref.S_star), 1.)
                ptol = 1e-9 + 1e-13 * ref.cond
            else:
                scale = max(abs(c1), abs(c2), 1.) if max(abs(c1), abs(c2)) < 1e29 else 1e30
                ptol = 1e-9
            if any((x != x) != (y != y) for x, y in ((c1, c2), (av1, av2), (sc1, sc2))):
                fail('%s: model %s has (av, sc, chi2) = (%r, %r, %r) vs (%r, %r, %r): one of them is not a number' % (
                    what, name, av1, sc1, c1, av2, sc2, c2), sig)
            if not (abs(c1 - c2) <= 1e-9 * scale + 1e-9 * max(abs(c1), abs(c2))):
                fail('%s: chi2 of model %s differs: %r vs %r' % (what, name, c1, c2), sig)
            if self.sc['mode'] == '3d' and sc1 != sc2:
                # a different grid distance is acceptable only on a chi^2 tie, which the chi2 comparison established
                continue
            if not (abs(av1 - av2) <= ptol * (1 + abs(av1))) or not (abs(sc1 - sc2) <= ptol * (1 + abs(sc1))):
                fail('%s: (av, sc) of model %s differs: (%r, %r) vs (%r, %r)' % (what, name, av1, sc1, av2, sc2), sig)


def make_fitter_rr(directory, sc, av_range, dr, remove_resolved):
    import numpy as np
    from astropy import units as u
    from sedfitter import Fitter
    law = gen.law_object(sc['law'])
    if sc['format'] == 'v2wav':
        fnames = [f['wav'] * u.micron for f in sc['filters']]
    else:
        fnames = [f['name'] for f in sc['filters']]
    return Fitter(fnames, np.array(sc['theta']) * u.arcsec, directory, extinction_law=law, av_range=list(av_range),
                  distance_range=dr if dr is not None else [1., 2.] * u.kpc, remove_resolved=remove_resolved,
                  use_memmap=False)


def run_case(case, ctx):
    from astropy import units as u
    sc = case['scenario']
    n = case['n']
    labels = {'mode_' + sc['mode'], 'n=%d' % n, 'format_' + sc['format']}
    k = of.extinction_pattern(sc['law']['wav'], sc['law']['chi'], [f['wav'] for f in sc['filters']])
    nontrivial = False
    nvec = 0
    with ctx.tempdir() as d:
        if sc['mode'] == '2d':
            gen.build_package_2d(d, sc)
            with must_succeed('Fitter()'), quiet():
                fitter = gen.make_fitter(d, sc, sc['av_range'])
            grids = None
            dr = None
            rfit = None
        else:
            gen.build_package_3d(d, sc)
            dr = gen.distance_range_quantity(sc['setup'])
            dk = [float(v) for v in dr.to(u.kpc).value]
            grids = of.distance_grid(dk[0], dk[1], sc['setup']['step'])
            with must_succeed('Fitter()'), quiet():
                fitter = gen.make_fitter(d, sc, sc['av_range'], distance_range=dr)
            rfit = None
            if sc['format'] == 'v1' and len(sc['grid']['apertures']) >= 2:
                with must_succeed('Fitter(remove_resolved=True)'), quiet():
                    rfit = make_fitter_rr(d, sc, sc['av_range'], dr, True)
        env = Env(sc, fitter, k, grids, directory=d, dr=dr, resolved_fitter=rfit)
        for vec in vectors_of(case):
            nvec += 1
            try:
                nt = check_vector(env, vec, labels)
            except Violation as v:
                reduced = dict(case)
                reduced['vectors'] = [list(vec)]
                v.case_override = reduced
                raise
            nontrivial = nontrivial or nt
    ctx.labels['vector_evaluations'] += nvec
    return labels, nontrivial


def check_vector(env, vec, labels):
    sc = env.sc
    nfit = sum(1 for f in vec if f in (1, 4))
    base = make_source(sc, vec)
    so = gen.source_object(base)
    if int(so.n_data) != nfit:
        fail('flags %r: n_data = %r, expected %d' % (vec, so.n_data, nfit), 'c03:n_data')
    singular = nfit < (2 if sc['mode'] == '2d' else 1)
    if singular:
        labels.add('singular_vector')
        return False
    if sc['mode'] == '2d':
        pre = env.refs(base)
        if any(r.singular or r.cond > 1e10 for r in pre):
            # e.g. a flat law: all extinction coefficients equal -> singular regression, outside the domain
            labels.add('numerically_singular_vector')
            return False
    so, info = env.fit(base, 'base')
    refs = env.check_reference(base, info, vec)
    has = set(vec)
    # 1. ignored points: other values, and 9 <-> 0
    if has & set(IGN):
        _, info_b = env.fit(make_source(sc, vec, ign='ignB'), 'ignored values replaced')
        env.same(info, info_b, refs, 'flags %r: replacing the values of ignored points' % (vec,), 'c03:ignored_values_matter')
        if 9 in has:
            _, info_c = env.fit(make_source(sc, vec, ign='ignB', nine_as_zero=True), 'flag 9 -> 0')
            env.same(info, info_c, refs, 'flags %r: turning plot-only points into unused points' % (vec,), 'c03:flag9_matters')
        labels.add('rel_ignored')
    # 2./3. limits
    if has & {2, 3}:
        _, info_off = env.fit(make_source(sc, vec, limits='off'), 'limits -> flag 0')
        _, info_c0 = env.fit(make_source(sc, vec, limits='conf0'), 'limits with confidence 0')
        env.same(info_off, info_c0, refs, 'flags %r: confidence 0 vs flag 0' % (vec,), 'c03:conf0_not_flag0')
        if sc['mode'] == '2d':
            ra, rb = by_name(info), by_name(info_off)
            for m, name in enumerate(sc['grid']['names']):
                ref = refs[m]
                ptol = 1e-9 + 1e-13 * ref.cond
                if not (abs(ra[name][0] - rb[name][0]) <= ptol * (1 + abs(ra[name][0]))) or \
                        not (abs(ra[name][1] - rb[name][1]) <= ptol * (1 + abs(ra[name][1]))):
                    fail('flags %r model %s: a limit changed the least-squares solution: (%r, %r) vs (%r, %r) without it' % (
                        vec, name, ra[name][0], ra[name][1], rb[name][0], rb[name][1]), 'c03:limit_enters_solution')
                sure, maybe = ref.penalties(ra[name][0], ra[name][1])
                dchi = ra[name][2] - rb[name][2]
                scale = max(float(ref.T), float(ref.S_star), 1.)
                tol = 1e-9 * (scale + sure + maybe) + 1e-9
                if not (sure - tol <= dchi <= sure + maybe + tol):
                    fail('flags %r model %s: limits add %r to chi2, expected %r (+%r ambiguous)' % (
                        vec, name, dchi, sure, maybe), 'c03:limit_penalty')
        labels.add('rel_limits')
    # 4. flag 4 == transformed flag 1
    if 1 in has:
        src4 = make_source(sc, vec, fit1_as4=True)
        _, info4 = env.fit(src4, 'flag 1 -> transformed flag 4')
        env.same(info, info4, refs, 'flags %r: flag-1 points given as transformed flag-4 points' % (vec,), 'c03:flag4_not_equivalent')
        labels.add('rel_flag4')
        if any(sc['pools'][j].get('twin_zero') for j, f in enumerate(vec) if f == 1):
            labels.add('rel_flag4_twin_value_0.0')
    # 6. a band flagged 0 is as if the band did not exist: a fitter built WITHOUT those bands gives the same fits
    #    (also with remove_resolved=True, where the apertures of the used bands decide which models are dropped)
    zeros = [j for j, f in enumerate(vec) if f == 0]
    keep = [j for j, f in enumerate(vec) if f != 0]
    if zeros and len(keep) >= 1 and env.directory is not None and (len(zeros) + sum(vec)) % 2 == 0:
        sub_src = dict(base)
        for key in ('flags', 'flux', 'err'):
            sub_src[key] = [base[key][j] for j in keep]
        for rr in ([False, True] if env.resolved_fitter is not None else [False]):
            full = env.resolved_fitter if rr else env.fitter
            with must_succeed('Fitter.fit'), quiet():
                ia = full.fit(gen.source_object(base))
                ib = env.reduced_fitter(keep, rr).fit(gen.source_object(sub_src))
            if rr and not (np.all(np.isfinite(ia.chi2)) and np.all(np.isfinite(ib.chi2))):
                # models resolved at every distance get chi2 = inf on both sides; compare the pattern only
                if list(np.isfinite(ia.chi2[np.argsort(ia.model_name)])) != list(np.isfinite(ib.chi2[np.argsort(ib.model_name)])):
                    fail('flags %r, remove_resolved=True: which models are rejected as resolved depends on a band flagged 0' % (vec,),
                         'c03:flag0_band_matters')
                continue
            env.same(ia, ib, refs, 'flags %r%s: fitting without the bands flagged 0 at all' % (
                vec, ', remove_resolved=True' if rr else ''), 'c03:flag0_band_matters')
        labels.add('rel_band_absent')
    # 7. the Source object that was fitted above is edited in place and fitted again: a band switched off (flag -> 0) on
    #    the living object stops influencing the fit, exactly as for a source created with that flag vector
    if (sum(vec) + 2 * len(vec)) % 3 == 0:
        on = [j for j, f in enumerate(vec) if f not in IGN]
        j = on[(sum(vec) + len(vec)) % len(on)]
        vec2 = list(vec)
        vec2[j] = 0
        nfit2 = sum(1 for f in vec2 if f in (1, 4))
        src2 = make_source(sc, vec2)
        ok = nfit2 >= (2 if sc['mode'] == '2d' else 1)
        if ok and sc['mode'] == '2d':
            ok = not any(r.singular or r.cond > 1e10 for r in env.refs(src2))
        if ok:
            refs2 = env.refs(src2)
            so.valid[j] = 0
            with must_succeed('Fitter.fit (same Source object after valid[%d] = 0, flags were %r)' % (j, vec)), quiet():
                info_e = env.fitter.fit(so)
            _, info_f = env.fit(src2, 'fresh source with band %d flagged 0' % j)
            env.same(info_e, info_f, refs2, 'flags %r, then valid[%d] = 0 on the fitted Source object vs a fresh source with '
                     'those flags' % (vec, j), 'c03:in_place_flag_edit_ignored')
            for i in [i for i, f in enumerate(vec2) if f in IGN and so.flux.dtype.kind == 'f' and so.error.dtype.kind == 'f']:
                so.flux[i] = sc['pools'][i]['ignB'][0]
                so.error[i] = sc['pools'][i]['ignB'][1]
            with must_succeed('Fitter.fit (same Source object, ignored values replaced in place)'), quiet():
                info_g = env.fitter.fit(so)
            env.same(info_g, info_f, refs2, 'flags %r: values of ignored points replaced in place on the fitted Source object' % (
                vec2,), 'c03:ignored_values_matter')
            labels.add('rel_in_place_edit_after_fit')
    return bool(has & {0, 9, 2, 3, 4})


ENTRIES = {'flags': run_case}


def plan(ctx):
    reps = ctx.scale(3, 12)
    nmax = 4 if ctx.quick else 5
    for mode in ('2d', '3d'):
        for n in range(1, nmax + 1):
            scs = ctx.collect('sc-%s-%d' % (mode, n), scenario(n, mode), reps)
            # the shard's slice of ALL 6^n vectors is enumerated inside each generated scenario
            ctx.run_cases('flags', [{'n': n, 'mode': mode, 'scenario': sc, 'slice': [ctx.shard, ctx.nshards, rep],
                                     'vectors': None} for rep, sc in enumerate(scs)])
        if ctx.quick:
            # seeded sample of n=5: a sixth of each shard's slice, rotating with VERIF_SEED
            scs = ctx.collect('sc-%s-5' % mode, scenario(5, mode), 1)
            ctx.run_cases('flags', [{'n': 5, 'mode': mode, 'scenario': scs[0], 'vectors': None,
                                     'slice': [(ctx.shard * 6 + ctx.seed) % (ctx.nshards * 6), ctx.nshards * 6, 0]}])
