"""
C08 - a planted model is recovered through the whole pipeline.

Photometry is synthesised by the REFERENCE (exact convolution of the abstract package + extinction pattern + distance
scaling) from model m at A_V0 and planted scale / grid distance; then convolve_model_dir -> fit(data file) ->
write_parameters run on a package written by the independent writer.  Oracle: first record and first listing row.
"""
import os
import math

import numpy as np
from hypothesis import strategies as st

from vlib import gen, pkgio, convpkg
from vlib import oracle_fit as of
from vlib import fitinfo_gen as fg
from vlib.runner import fail, must_succeed, quiet

PROPERTY_ID = 'C08'
LEVEL = 'exploration'
DESIGN_REF = 'DESIGN.md section 3, C08'
RULE = ('One data file holds 1..3 planted sources, each from its own model (fit() re-uses one fitter for all of them). Hypothesis generates C07-style abstract packages (per-file / cube, distance-independent / -dependent, permuted '
        'parameter table, either storage order), 2..4 filters inside the SED range, an extinction law, a planted model m, '
        'A_V0 inside a generated A_V range, a planted scale (or a grid distance index), per-band flags 1 or 4 and relative '
        'errors in [1e-3, 0.5]; in half of the cases the rows of parameters.fits are re-ordered after the convolution. The reference decides non-degeneracy: every other model (and every other grid distance of '
        'm) must have reference chi^2 > 1e-3 (+ float32 slack), else the case is counted as degenerate and skipped. '
        'Non-trivial = non-degenerate case with >= 2 models; distinct = distinct canonical JSON.')
RULE += (' ' + 'Also varied: per-model wavelength grids in per-file packages, documented file layouts (.gz, sub-directories, parameters.fits.gz), stored units.')
RULE += (' ' + 'Cube packages: one band may be given to fit() as a wavelength, cube apertures in AU / pc / cm, a Fitter made before fit() (reversed filters) is used after it; one of the other models may have no flux at all.')
RULE += (' ' + 'A third of the planted sources (>= 3 filters) carry lower / upper limits that the planted model satisfies by 0.3..1.5 dex.')
RULE += (' ' + 'For packages with an even number of models the parameter listing is made twice and the second one examined.')
ASSUMPTIONS = [
    'chi2[0] <= 1e-6 (+ float32 slack for cube packages, whose model fluxes fit() memory-maps as float32)',
    'A_V and scale within 1e-6*(1+|p|) plus the first-order float32 perturbation bound',
    'parameters printed with %10.3e are compared at 5.1e-4 relative',
]


@st.composite
def cases(draw):
    pkg = draw(convpkg.abstract_packages(max_models=6, max_ap=4, min_wav=4, max_wav=10))
    filters = draw(convpkg.filters_for(pkg['wav'], 2, 4, inside=True))
    nf = len(filters)
    law = draw(gen.wide_laws(8))
    c = {'pkg': pkg, 'filters': filters, 'law': law, 'format': draw(st.sampled_from(['v1', 'v2']))}
    if c['format'] == 'v1' and len(pkg['names']) >= 2 and draw(st.integers(0, 2)) == 0:
        # per-file packages may hold SEDs on several wavelength grids
        c['pkg'] = pkg = draw(convpkg.with_model_grids(pkg))
    lo = draw(st.sampled_from([0., -2., 1.]))
    hi = lo + draw(st.sampled_from([0.5, 10., 40.]))
    c['av_range'] = [lo, hi]
    if pkg['apdep']:
        # (ranges that are a whole number of steps up to rounding leave the grid size ambiguous: the planted distance would not
        # be well defined, so those shapes are left to C02 / C07)
        s = draw(gen.distance_setup(pkg['apertures'], nf, shapes=('many', 'many', 'beyond', 'within_step', 'single')))
        s['step'] = pkg['logd_step']
        c['setup'] = s
        c['theta'] = s['theta']
    else:
        c['theta'] = [draw(st.floats(0.5, 10., allow_nan=False)) for _ in range(nf)]
    # one data file with 1..3 sources, each planted from its own model (the fitter is re-used from source to source)
    plants = []
    for i in range(draw(st.integers(1, 3))):
        plants.append({'m': draw(st.integers(0, len(pkg['names']) - 1)),
                       'av0': lo + (hi - lo) * draw(st.sampled_from([0., 1., 0.5, 0.25, 0.8])),
                       'dist_pick': draw(st.floats(0., 1., allow_nan=False)),
                       'sc0': draw(st.floats(-2., 2., allow_nan=False)),
                       'flags': [draw(st.sampled_from([1, 4])) for _ in range(nf)],
                       'rel': [draw(gen.logfloat(1e-3, 0.5)) for _ in range(nf)]})
    # some bands of a planted source are only limits, and the planted model satisfies them with a wide margin: they cost
    # nothing at the planted solution
    for pl in plants:
        pl['limits'] = [None] * nf
        if nf >= 3 and draw(st.integers(0, 2)) == 0:
            for j in draw(st.lists(st.integers(0, nf - 1), min_size=1, max_size=max(1, nf - 2), unique=True)):
                pl['limits'][j] = [draw(st.sampled_from([2, 3])), draw(st.sampled_from([0.3, 0.5, 1.5])),
                                   draw(st.sampled_from([0.5, 0.9, 0.99, 1.]))]
    c['plants'] = plants
    # one of the OTHER models may emit nothing at all (zero flux everywhere: its fits are undefined and it must simply not
    # get in the way of the planted model)
    n_ = len(pkg['names'])
    if n_ >= 2 and draw(st.integers(0, 3)) == 0:
        z = draw(st.integers(0, n_ - 1))
        if all(pl['m'] != z for pl in plants):
            pkg['flux'][z] = [[0. for _ in row] for row in pkg['flux'][z]]
            pkg['err'][z] = [[0. for _ in row] for row in pkg['err'][z]]
            c['dead_model'] = z
    # cube packages: one more band may be given to fit() as a wavelength (a tabulated one) next to the named filters, and the
    # cube may tabulate its apertures in pc or cm
    if c['format'] == 'v2' and draw(st.booleans()):
        c['mono_band'] = draw(st.integers(0, len(pkg['wav']) - 1))
        c['mono_rel'] = draw(gen.logfloat(1e-3, 0.5))
        pkg['cube_ap_unit'] = draw(st.sampled_from(['AU', 'pc', 'cm']))
    c['selector'] = draw(st.sampled_from([['A', 0], ['N', 1], ['N', 3], ['F', 6.], ['C', 1e31]]))
    # the parameter file is looked up by model NAME: its rows may be re-ordered after the convolved fluxes were built
    c['reorder_after'] = list(draw(st.permutations(list(range(len(pkg['names'])))))) if draw(st.booleans()) else None
    return c


def prepare(case, plant, idx, conv, k, grid, float32, dead=frozenset()):
    """-> ('skip', label) or ('ok', dict): planted photometry from the reference + what must be recovered"""
    pkg, filters = case['pkg'], case['filters']
    names = pkg['names']
    nf = len(filters)
    lo, hi = case['av_range']
    m0, av0 = plant['m'], plant['av0']
    if pkg['apdep']:
        i0 = min(int(plant['dist_pick'] * len(grid)), len(grid) - 1)
        d0 = grid[i0]
        target = []
        for j in range(nf):
            fl = of.aperture_flux(pkg['apertures'], conv[j][m0], case['theta'][j] * d0 * 1000.)
            target.append(math.log10(fl / d0 ** 2) + av0 * k[j])
        sc0 = math.log10(d0)
    else:
        i0 = d0 = None
        sc0 = plant['sc0']
        target = [math.log10(conv[j][m0][0]) + av0 * k[j] - 2. * sc0 for j in range(nf)]
    if any(not (abs(t) <= 100.) for t in target):
        return 'skip', 'flux_out_of_float_range_skipped'
    flux, err = [], []
    limits = list(plant.get('limits') or []) + [None] * nf
    flags = list(plant['flags'])
    for j in range(nf):
        rel = plant['rel'][j]
        if limits[j] is not None:
            kind, margin, conf = limits[j]
            flags[j] = kind
            # lower limit below, upper limit above what the planted model predicts
            flux.append(10. ** (target[j] - margin if kind == 2 else target[j] + margin))
            err.append(conf)
        elif plant['flags'][j] == 4:
            flux.append(target[j])
            err.append(rel / of.LN10)
        else:
            lf = target[j] + 0.5 * rel * rel / of.LN10
            flux.append(10. ** lf)
            err.append(rel * 10. ** lf)
    src = {'name': 'planted%d' % idx, 'x': 1., 'y': 2., 'flags': flags, 'flux': flux, 'err': err}
    bands = of.transform_source(src['flags'], src['flux'], src['err'])
    slack0 = 0.
    if pkg['apdep']:
        if all(kk == 0. for kk in k):
            return 'skip', 'zero_k_skipped'
        refs = dict((m, of.Ref3D(bands, [conv[j][m] for j in range(nf)], pkg['apertures'], case['theta'], k, lo, hi, grid))
                    for m in range(len(names)) if m not in dead)
        if float32:
            slack0 = of.float32_slack(bands, refs[m0].rows[i0], k, av0, 0.)
        for m in sorted(refs):
            for i in range(len(grid)):
                if m == m0 and i == i0:
                    continue
                if refs[m].at_distance(i)['S'] <= 1e-3 + 10 * slack0:
                    return 'skip', 'degenerate_skipped'
        swkk = sum(b[2] * kk * kk for b, kk in zip(bands, k) if b[0] == 'fit')
        av_tol = 1e-6 * (1 + abs(av0))
        if float32:
            av_tol += sum(b[2] * abs(kk) * (3e-7 * max(1., abs(L)) + 1e-7)
                          for b, kk, L in zip(bands, k, refs[m0].rows[i0]) if b[0] == 'fit') / swkk
        sc_tol = 1e-10 * max(1., abs(sc0))
    else:
        refs = dict((m, of.Ref2D(bands, [math.log10(conv[j][m][0]) for j in range(nf)], k, lo, hi))
                    for m in range(len(names)) if m not in dead)
        if refs[m0].singular or refs[m0].cond > 1e8:
            return 'skip', 'singular_skipped'
        if float32:
            slack0 = of.float32_slack(bands, refs[m0].logmodel, k, av0, sc0)
        for m in sorted(refs):
            if m != m0 and float(refs[m].S_star) <= 1e-3 + 10 * slack0:
                return 'skip', 'degenerate_skipped'
        a, b, dd = float(refs[m0].m11), float(refs[m0].m12), float(refs[m0].m22)
        tr, det = a + dd, a * dd - b * b
        lmin = tr / 2 - math.sqrt(max(tr * tr / 4 - det, 0.))
        if lmin <= 0:
            lmin = det / tr
        av_tol = sc_tol = 1e-6 * (1 + max(abs(av0), abs(sc0)))
        if float32:
            dc1 = sum(bb[2] * abs(kk) * (3e-7 * max(1., abs(L)) + 1e-7) for bb, kk, L in zip(bands, k, refs[m0].logmodel) if bb[0] == 'fit')
            dc2 = 2 * sum(bb[2] * (3e-7 * max(1., abs(L)) + 1e-7) for bb, L in zip(bands, refs[m0].logmodel) if bb[0] == 'fit')
            extra = math.hypot(dc1, dc2) / lmin
            av_tol += extra
            sc_tol += extra
    what = 'source %s planted from model %s at A_V=%r, %s' % (src['name'], names[m0], av0,
                                                             ('d=%r kpc' % d0) if pkg['apdep'] else 'scale=%r' % sc0)
    return 'ok', {'src': src, 'm0': m0, 'av0': av0, 'sc0': sc0, 'av_tol': av_tol, 'sc_tol': sc_tol, 'slack0': slack0,
                  'what': what}


def run_case(case, ctx):
    from astropy import units as u
    from sedfitter import fit, write_parameters
    from sedfitter.convolve import convolve_model_dir
    pkg, filters, fmt = case['pkg'], case['filters'], case['format']
    if 'plants' not in case:   # replay files written before several sources per data file were generated
        case = dict(case)
        case['plants'] = [{'m': case['m'], 'av0': case['av0'], 'dist_pick': case.get('dist_pick', 0.), 'sc0': case.get('sc0', 0.),
                           'flags': case['flags'], 'rel': case['rel']}]
    names = pkg['names']
    real_filters = filters
    mono = case.get('mono_band') if fmt == 'v2' else None
    if mono is not None:
        w_ = mono % len(pkg['wav'])
        filters = list(filters) + [{'name': None, 'central': pkg['wav'][w_], 'mono': w_}]
        case = dict(case, filters=filters, theta=list(case['theta']) + [max(case['theta'])],
                    plants=[dict(pl, flags=list(pl['flags']) + [1], rel=list(pl['rel']) + [case.get('mono_rel', 0.05)])
                            for pl in case['plants']])
    nf = len(filters)
    float32 = fmt == 'v2'           # fit() memory-maps cube packages: float32 model fluxes
    labels = {'format_' + fmt, 'apdep' if pkg['apdep'] else 'not_apdep', 'storage_' + pkg['storage']}
    labels.add('sed_layout_' + pkg.get('sed_layout', 'flat') if fmt == 'v1' else 'cube')
    if pkg.get('par_gz'):
        labels.add('parameters.fits.gz')
    k = of.extinction_pattern(case['law']['wav'], case['law']['chi'], [f['central'] for f in filters])
    from props.c06 import stored
    spkg = stored(pkg, fmt)
    conv = [convpkg.reference_convolved(spkg, f)[0] for f in real_filters]       # conv[j][model][aperture]
    if mono is not None:
        conv.append([[row[w_] for row in mod] for mod in spkg['flux']])
        labels.add('one_band_given_as_wavelength')
        labels.add('cube_apertures_in_' + pkg.get('cube_ap_unit', 'AU'))
    dead = frozenset(m for m in range(len(names)) if any(v <= 0. for cj in conv for v in cj[m]))
    if dead - {case.get('dead_model')}:
        return labels | {'zero_flux_filter_skipped'}, False
    if dead:
        labels.add('a_model_without_any_flux')
    lo, hi = case['av_range']
    grid = None
    if pkg['apdep']:
        dr = gen.distance_range_quantity(case['setup'])
        dk = [float(v) for v in dr.to(u.kpc).value]
        grids = of.distance_grid(dk[0], dk[1], pkg['logd_step'])
        if len(grids) > 1:
            return labels | {'ambiguous_grid_skipped'}, False
        grid = grids[0]
    else:
        dr = [1., 2.] * u.kpc
    plants = []
    for idx, plant in enumerate(case['plants']):
        status, res = prepare(case, plant, idx, conv, k, grid, float32, dead)
        if status == 'skip':
            labels.add(res)
        else:
            plants.append(res)
    if not plants:
        return labels, False
    labels.add('sources_in_data_file=%d' % len(plants))
    if any(f_ in (2, 3) for p_ in plants for f_ in p_['src']['flags']):
        labels.add('planted_source_with_satisfied_limits')
    # ---- the pipeline under test
    with ctx.tempdir() as d:
        mdir = os.path.join(d, 'models')
        os.mkdir(mdir)
        convpkg.emit(pkg, mdir, fmt)
        with must_succeed('convolve_model_dir'), quiet():
            convolve_model_dir(mdir, [convpkg.filter_object(f) for f in real_filters])
        if case.get('reorder_after') is not None:
            pkgio.write_parameters(mdir, names, pkg['params'], order=case['reorder_after'], gz=bool(pkg.get('par_gz')))
            labels.add('parameter_rows_reordered_after_convolution')
        data = os.path.join(d, 'data.txt')
        pkgio.write_data_file(data, [pkgio.source_line(p['src']['name'], p['src']['x'], p['src']['y'], p['src']['flags'],
                                                       p['src']['flux'], p['src']['err']) for p in plants])
        out = os.path.join(d, 'out.fitinfo')
        fargs = [f['name'] if f.get('mono') is None else f['central'] * u.micron for f in filters]
        early = None
        if fmt == 'v2' and len(plants) % 2 == 1:
            # a Fitter made BEFORE fit() runs (filters listed in reverse order) and used after it: the two do not share state
            from sedfitter import Fitter
            with must_succeed('Fitter() before fit()'), quiet():
                early = Fitter(fargs[::-1], (np.array(case['theta']) * u.arcsec)[::-1], mdir,
                               extinction_law=gen.law_object(case['law']), av_range=[lo, hi], distance_range=dr)
        with must_succeed('fit()'), quiet():
            fit(data, [f['name'] if f.get('mono') is None else f['central'] * u.micron for f in filters],
                np.array(case['theta']) * u.arcsec, mdir, out, n_data_min=1,
                extinction_law=gen.law_object(case['law']), av_range=[lo, hi], distance_range=dr,
                output_format=tuple(case['selector']), output_convolved=False)
        with must_succeed('reading the fit output'):
            recs, _ = fg.read_fit_file(out)
        if early is not None:
            p0 = plants[0]
            rsrc = dict(p0['src'], flags=p0['src']['flags'][::-1], flux=p0['src']['flux'][::-1], err=p0['src']['err'][::-1])
            with must_succeed('Fitter.fit on the fitter made before fit()'), quiet():
                ie = early.fit(gen.source_object(rsrc))
            if str(ie.model_name[0]).strip() != names[p0['m0']] or not float(ie.chi2[0]) <= 1e-6 + 2 * p0['slack0'] or \
                    not (abs(float(ie.av[0]) - p0['av0']) <= p0['av_tol']) or not (abs(float(ie.sc[0]) - p0['sc0']) <= p0['sc_tol']):
                fail('%s: a Fitter created before fit() ran on the same package (filters in reverse order) now puts %s first with '
                     'chi2=%r, A_V=%r, scale=%r' % (p0['what'], str(ie.model_name[0]).strip(), float(ie.chi2[0]), float(ie.av[0]),
                                                     float(ie.sc[0])), 'c08:other_fitter_disturbed')
            labels.add('fitter_made_before_fit_used_after')
            del early
        if len(recs) != len(plants):
            fail('%d records for %d sources' % (len(recs), len(plants)), 'c08:record_count')
        listing = os.path.join(d, 'pars.txt')
        with must_succeed('write_parameters'), quiet():
            write_parameters(out, listing, select_format=tuple(case['selector']))
        if len(names) % 2 == 0 or case.get('listed_twice'):
            # the listing that is examined is the one of a second call in the same session (a listing made again after a look
            # at the first one, or for another selection)
            with must_succeed('write_parameters, called a second time on the same fit file'), quiet():
                write_parameters(out, listing, select_format=tuple(case['selector']))
            labels.add('listing_made_twice')
        lines = open(listing).read().split('\n')
        head = lines[1].split()
        body = [l.split() for l in lines[3:] if l.strip()]
        pos = 0
        for info, p in zip(recs, plants):
            plant = p['what']
            m0 = p['m0']
            if info.source.name != p['src']['name']:
                fail('record order: %s where %s was expected' % (info.source.name, p['src']['name']), 'c08:record_order')
            if info.n_fits < 1:
                fail('%s: no fit survived the output selector %r' % (plant, case['selector']), 'c08:best_not_kept')
            best = str(info.model_name[0]).strip()
            chi2, av, sc = float(info.chi2[0]), float(info.av[0]), float(info.sc[0])
            if best != names[m0]:
                fail('%s: best fit is %s (chi2=%r), not the planted model' % (plant, best, chi2), 'c08:wrong_model_first')
            if not chi2 <= 1e-6 + 2 * p['slack0']:
                fail('%s: best chi2 is %r, expected ~0' % (plant, chi2), 'c08:chi2_not_zero')
            if not (abs(av - p['av0']) <= p['av_tol']):
                fail('%s: reported A_V %r (tolerance %.2e)' % (plant, av, p['av_tol']), 'c08:av_not_recovered')
            if not (abs(sc - p['sc0']) <= p['sc_tol']):
                fail('%s: reported scale %r, expected %r' % (plant, sc, p['sc0']), 'c08:scale_not_recovered')
            # ---- parameter listing: source line, then one line per kept fit
            ndat = sum(1 for f_ in p['src']['flags'] if f_ in (1, 4))
            if pos >= len(body) or body[pos][0] != p['src']['name'] or int(body[pos][1]) != ndat or int(body[pos][2]) != info.n_fits:
                fail('%s: listing source line %r (expected n_data %d, n_fits %d)' % (
                    plant, body[pos] if pos < len(body) else None, ndat, info.n_fits), 'c08:listing_source_line')
            rows = body[pos + 1: pos + 1 + info.n_fits]
            pos += 1 + info.n_fits
            if len(rows) != info.n_fits:
                fail('%s: listing is short' % plant, 'c08:listing_source_line')
            first = dict(zip(head, rows[0]))
            if first.get('model_name') != names[m0]:
                fail('%s: listing shows model %r first' % (plant, first.get('model_name')), 'c08:listing_wrong_model')
            for tok in rows:
                r = dict(zip(head, tok))
                mm = names.index(r['model_name']) if r.get('model_name') in names else None
                if mm is None:
                    fail('%s: listing names an unknown model %r' % (plant, r.get('model_name')), 'c08:listing_wrong_model')
                for col, vals in pkg['params'].items():
                    if not (abs(float(r[col.lower()]) - vals[mm]) <= 5.1e-4 * abs(vals[mm])):
                        fail('%s: listing row of %s shows %s = %s, that model has %r' % (plant, names[mm], col, r[col.lower()],
                                                                                       vals[mm]), 'c08:listing_wrong_parameters')
    if pkg['perm'] != sorted(pkg['perm']):
        labels.add('permuted')
    return labels, len(names) >= 2


ENTRIES = {'plant': run_case}


def plan(ctx):
    ctx.run_given('plant', cases(), ctx.scale(60, 1000), shrink=not ctx.quick)
