"""
C11 - fits do not depend on labelling, ordering, units of brightness, or history.

Metamorphic pairs (permuted filters, permuted models, rescaled brightness) on generated packages in both fitting modes,
and a rule-based state machine that interleaves fits on ONE Fitter and compares each result bit-exactly with a fresh
fitter's result, checking that the source it was given is untouched.
"""
import os
import math

import numpy as np
from hypothesis import strategies as st
from hypothesis.stateful import rule, initialize, precondition

from vlib import gen
from vlib import fitinfo_gen as fg
from vlib import oracle_fit as of
from vlib.runner import fail, must_succeed, quiet, TracedMachine

PROPERTY_ID = 'C11'
LEVEL = 'exploration'
DESIGN_REF = 'DESIGN.md section 3, C11'
RULE = ('Entry "permute": generated C01/C02 cases; the same sources are fitted with the filters (and photometry) in a '
        'generated permutation and with the models of the package in a generated permutation; results are compared per '
        'model name. Entry "rescale": distance-independent cases with flags in {0,1,9}; all fluxes and errors multiplied by '
        'c in [1e-4,1e4]. Entry "history": machine with rules fit(source k) on one Fitter over a pool of 2..6 sources. '
        'Non-trivial: a non-identity permutation of >=2 filters / >=2 models; c != 1; a history of >=3 fits in which a '
        'source is fitted again after a different one.')
RULE += (' ' + 'Also varied: mixed named / wavelength filter lists with cube and convolved files in different units, the same filter listed twice.')
RULE += (' ' + 'History machine: unnamed sources, memory-mapped cube cases, and an other_fitter rule (a second fitter with reversed filters / other ranges is created, used and kept alive).')
RULE += (' ' + 'The brightness-scaling sources also carry flag-4 points (log10 flux shifted by log10 of the constant, often across 0). (Limits are left out here: a grid model may equal the data exactly, and a limit sitting exactly on the model flips with rounding.)')
RULE += (' ' + 'A third of the distance-dependent histories run on fitters made with remove_resolved=True.')
ASSUMPTIONS = [
    'paired runs that change the summation order are compared at 1e-9 relative (+1e-13*cond on the 2-D parameters)',
    'history independence and source immutability are compared bit-exactly (same operations, same bits)',
]


def by_name(info):
    return dict((str(n).strip(), (float(info.av[i]), float(info.sc[i]), float(info.chi2[i])))
                for i, n in enumerate(info.model_name))


def tie_penalties(src, info):
    """per model name: the penalties of the limits of `src` on which that model sits exactly (its stored predicted log flux
    equals log10 of the limit to 1e-9): whether such a limit counts as violated is decided by the last bit of the fitted
    (A_V, scale), which legitimately depends on the order of the bands / models - either outcome is right"""
    out = {}
    if src is None or info.model_fluxes is None or not any(f in (2, 3) for f in src['flags']):
        return out
    for i, n in enumerate(info.model_name):
        pens = []
        for j, f in enumerate(src['flags']):
            if f in (2, 3) and src['flux'][j] > 0:
                if not (abs(float(info.model_fluxes[i][j]) - math.log10(src['flux'][j])) > 1e-9):
                    pens.append(of.penalty_value(src['err'][j]))
        if pens:
            out[str(n).strip()] = pens
    return out


def compare(a, b, names, mode, conds, what, sig, sc_shift=0., conds_T=None, src=None, src_b=None):
    ra, rb = by_name(a), by_name(b)
    # models that sit exactly on a limit in either result: counted as violated or not by the last bit, and (with several
    # trial distances) the other outcome may send the fit to the neighbouring distance - neither result is wrong
    ties = set(tie_penalties(src, a)) | set(tie_penalties(src_b if src_b is not None else src, b))
    if sorted(ra) != sorted(names) or sorted(rb) != sorted(names):
        fail('%s: model sets differ: %r vs %r' % (what, sorted(ra), sorted(rb)), sig)
    for m, name in enumerate(names):
        (av1, sc1, c1), (av2, sc2, c2) = ra[name], rb[name]
        sc2 = sc2 - sc_shift
        if c1 != c1 and c2 != c2:
            continue
        # rounding in chi^2 scales with the size of the terms that cancel, T = sum w r^2, not with chi^2 itself
        scale = max(abs(c1), abs(c2), 1., conds_T.get('T', 0.) if isinstance(conds_T, dict) else 0.)
        if not abs(c1 - c2) <= (1e-9 + 100. * (2.3e-16 * conds[m]) ** 2) * scale:
            if name in ties:
                continue
            fail('%s: chi2 of model %s: %r vs %r' % (what, name, c1, c2), sig)
        if mode == '3d' and not (abs(sc1 - sc2) <= 1e-9):
            continue  # a chi^2 tie between two grid distances, established by the comparison above
        ptol = 1e-9 + 1e-13 * conds[m]
        if not (abs(av1 - av2) <= ptol * (1 + abs(av1)) and abs(sc1 - sc2) <= ptol * (1 + abs(sc1))):
            if av1 != av1 and av2 != av2:
                continue
            fail('%s: (av, sc) of model %s: (%r, %r) vs (%r, %r)' % (what, name, av1, sc1, av2, sc2), sig)


LAST_T = {}


def conds_for(case, src, av_range, mode):
    LAST_T.clear()
    names = case['grid']['names']
    if mode == '3d':
        return [1.] * len(names)
    k = of.extinction_pattern(case['law']['wav'], case['law']['chi'], [f['wav'] for f in case['filters']])
    bands = of.transform_source(src['flags'], src['flux'], src['err'])
    c = 0.
    for m in range(len(names)):
        ref = of.Ref2D(bands, case['grid']['logflux'][m], k, av_range[0], av_range[1])
        c = max(c, ref.cond if not ref.singular else float('inf'))
        LAST_T['T'] = max(LAST_T.get('T', 0.), float(ref.T), float(ref.S_star) if ref.S_star is not None else 0.)
    return [c] * len(names)


def permuted_case(case, fperm, mperm, mode):
    """the same abstract package with filters / models reordered"""
    c = dict(case)
    c['filters'] = [case['filters'][j] for j in fperm]
    c['theta'] = [case['theta'][j] for j in fperm]
    if case.get('ap_count_by_filter'):
        c['ap_count_by_filter'] = [case['ap_count_by_filter'][j] for j in fperm]
    g = dict(case['grid'])
    g['names'] = [case['grid']['names'][m] for m in mperm]
    if mode == '2d':
        g['logflux'] = [[case['grid']['logflux'][m][j] for j in fperm] for m in mperm]
    else:
        g['flux'] = [[case['grid']['flux'][m][j] for j in fperm] for m in mperm]
        s = dict(case['setup'])
        s['theta'] = c['theta']
        c['setup'] = s
    c['grid'] = g
    c['sources'] = []
    for s in case['sources']:
        t = dict(s)
        for key in ('flags', 'flux', 'err'):
            t[key] = [s[key][j] for j in fperm]
        c['sources'].append(t)
    return c


@st.composite
def permute_cases(draw):
    mode = draw(st.sampled_from(['2d', '3d']))
    if mode == '2d':
        c = draw(gen.fit_case_2d(max_models=8, max_filters=6, max_sources=3))
    else:
        c = draw(gen.fit_case_3d(max_models=6, max_filters=5, max_sources=3, repeat_filter=True))
    c['memmap'] = False
    c['mode'] = mode
    nf, nm = len(c['filters']), len(c['grid']['names'])
    c['fperm'] = list(draw(st.permutations(list(range(nf)))))
    c['mperm'] = list(draw(st.permutations(list(range(nm)))))
    return c


def fit_all(case, d, mode, av_range):
    if mode == '2d':
        gen.build_package_2d(d, case)
        dr = None
    else:
        gen.build_package_3d(d, case)
        dr = gen.distance_range_quantity(case['setup'])
    with must_succeed('Fitter()'), quiet():
        fitter = gen.make_fitter(d, case, av_range, distance_range=dr)
    out = []
    for src in case['sources']:
        with must_succeed('Fitter.fit'), quiet():
            out.append(fitter.fit(gen.source_object(src)))
    return out


def run_permute(case, ctx):
    mode = case['mode']
    names = case['grid']['names']
    labels = {'mode_' + mode, 'format_' + case['format']}
    av_range = case['av_ranges'][0]
    fperm, mperm = case['fperm'], case['mperm']
    fid = fperm == sorted(fperm)
    mid = mperm == sorted(mperm)
    with ctx.tempdir() as d0, ctx.tempdir() as d1, ctx.tempdir() as d2:
        base = fit_all(case, d0, mode, av_range)
        pcase_f = permuted_case(case, fperm, list(range(len(names))), mode)
        pf = fit_all(pcase_f, d1, mode, av_range)
        pm = fit_all(permuted_case(case, list(range(len(fperm))), mperm, mode), d2, mode, av_range)
        for i, src in enumerate(case['sources']):
            conds = conds_for(case, src, av_range, mode)
            if conds[0] > 1e10:
                labels.add('singular_source_skipped')
                continue
            compare(base[i], pf[i], names, mode, conds,
                    'source %d, filters permuted by %r' % (i, fperm), 'c11:filter_order_matters', conds_T=dict(LAST_T), src=src,
                    src_b=pcase_f['sources'][i])
            compare(base[i], pm[i], names, mode, conds,
                    'source %d, models permuted by %r' % (i, mperm), 'c11:model_order_matters', conds_T=dict(LAST_T), src=src)
    if not fid:
        labels.add('filters_permuted')
    if not mid:
        labels.add('models_permuted')
    return labels, (not fid and len(fperm) >= 2) or (not mid and len(mperm) >= 2)


@st.composite
def rescale_cases(draw):
    c = draw(gen.fit_case_2d(max_models=6, max_filters=6, max_sources=3))
    c['memmap'] = False
    nf = len(c['filters'])
    k = of.extinction_pattern(c['law']['wav'], c['law']['chi'], [f['wav'] for f in c['filters']])
    srcs = []
    for s in c['sources']:
        flags = draw(st.lists(st.sampled_from((1, 1, 1, 4, 4, 0, 9)), min_size=nf, max_size=nf))
        if sum(1 for f in flags if f in (1, 4)) < 2:
            flags[0], flags[-1] = 1, 4
        srcs.append(draw(gen.sources(nf, k=k, logmodels=c['grid']['logflux'], flags=list(flags), ignored='positive')))
    c['sources'] = srcs
    c['factor'] = draw(st.one_of(gen.logfloat(1e-4, 1e4), st.sampled_from([10., 100., 1e-3, 2.])))
    if draw(st.integers(0, 3)) == 0:
        # integer photometry multiplied by an integer constant (counts, integer micro-Jansky): stays integer-typed
        c['sources'] = [gen.integerize(s) for s in c['sources']]
        c['factor'] = float(draw(st.sampled_from([2, 10, 100, 1000])))
    return c


def run_rescale(case, ctx):
    names = case['grid']['names']
    av_range = case['av_ranges'][0]
    cfac = case['factor']
    labels = {'format_' + case['format']}
    with ctx.tempdir() as d:
        gen.build_package_2d(d, case)
        with must_succeed('Fitter()'), quiet():
            fitter = gen.make_fitter(d, case, av_range)
        for i, src in enumerate(case['sources']):
            conds = conds_for(case, src, av_range, '2d')
            if conds[0] > 1e10:
                labels.add('singular_source_skipped')
                continue
            scaled = dict(src)
            # (a flag-4 point carries log10 flux and an error in dex: brighter by c means + log10 c, same error; the error
            # column of a limit is its confidence)
            scaled['flux'] = [v + math.log10(cfac) if f == 4 else v * cfac for f, v in zip(src['flags'], src['flux'])]
            scaled['err'] = [v * cfac if f not in (2, 3, 4) else v for f, v in zip(src['flags'], src['err'])]
            if any(f == 4 and (v > 0.) != (w > 0.) for f, v, w in zip(src['flags'], src['flux'], scaled['flux'])):
                labels.add('flag4_log_flux_changes_sign')
            t0 = dict(LAST_T)
            conds_for(case, scaled, av_range, '2d')
            LAST_T['T'] = max(LAST_T.get('T', 0.), t0.get('T', 0.))
            with must_succeed('Fitter.fit'), quiet():
                a = fitter.fit(gen.source_object(src))
                b = fitter.fit(gen.source_object(scaled))
            compare(a, b, names, '2d', conds, 'source %d, fluxes and errors x %r' % (i, cfac),
                    'c11:brightness_scaling', sc_shift=-0.5 * math.log10(cfac), conds_T=dict(LAST_T))
    return labels, cfac != 1.


# ------------------------------------------------------------------------------------------ history machine

@st.composite
def history_cases(draw):
    mode = draw(st.sampled_from(['2d', '3d']))
    if mode == '2d':
        c = draw(gen.fit_case_2d(max_models=5, max_filters=5, max_sources=6, ignored='any'))
    else:
        c = draw(gen.fit_case_3d(max_models=4, max_filters=4, max_sources=4, ignored='any', repeat_filter=True))
    while len(c['sources']) < 2:
        s = dict(c['sources'][0])
        s['flux'] = [v * 1.5 if isinstance(v, float) else v for v in s['flux']]
        c['sources'].append(s)
    c['mode'] = mode
    if mode == '3d' and len(c['grid']['apertures']) >= 2 and draw(st.integers(0, 2)) == 0:
        # the fitter is asked to drop resolved models: which (model, distance) pairs are dropped for a source depends on the
        # bands that source uses - and on nothing the fitter did before
        c['remove_resolved'] = True
        # the first filter keeps its small aperture, the others get much larger ones: models are then resolved in the first
        # band only; the first source does not use that band, the second one does
        nf_ = len(c['filters'])
        if nf_ >= 2:
            theta = [t if j == 0 else t * 25. for j, t in enumerate(c['theta'])]
            c['theta'] = theta
            c['setup'] = dict(c['setup'], theta=theta)
            a, b = c['sources'][0], c['sources'][1]
            if sum(1 for f in a['flags'][1:] if f in (1, 4)) >= 1:
                a['flags'][0] = 0
            if b['flags'][0] not in (1, 4):
                b['flags'][0] = 1
                b['flux'][0] = abs(b['flux'][0]) + 1.
                b['err'][0] = 0.1 * b['flux'][0]
    if c['format'] != 'v1' and draw(st.booleans()):
        c['memmap'] = True      # the default of Fitter / fit() for cube packages
    # some sources carry integer-typed photometry
    c['sources'] = [gen.integerize(s) if draw(st.integers(0, 4)) == 0 else s for s in c['sources']]
    # sources set up by hand for the object interface need not have a name
    if draw(st.integers(0, 2)) == 0:
        for s in c['sources']:
            if draw(st.booleans()):
                s['name'] = ''
    return c


def source_bits(so):
    return (so.name, float(so.x), float(so.y), np.asarray(so.valid).tobytes(), str(np.asarray(so.valid).dtype),
            np.asarray(so.flux).tobytes(), np.asarray(so.error).tobytes())


class HistoryMachine(TracedMachine()):

    def __init__(self):
        super(HistoryMachine, self).__init__()
        self.ready = False
        self.dir = None
        self.history = []

    def cleanup(self):
        import shutil
        if self.dir:
            shutil.rmtree(self.dir, ignore_errors=True)
            self.dir = None

    @initialize(case=history_cases())
    def setup(self, case):
        self.log('setup', case=case)
        self.guard(self._setup, case)

    def _make_fitter(self):
        with must_succeed('Fitter()'), quiet():
            return gen.make_fitter(self.dir, self.case, self.case['av_ranges'][0], distance_range=self.dr)

    def _setup(self, case):
        import tempfile
        self.case = case
        self.dir = tempfile.mkdtemp(prefix='c11m-')
        if case['mode'] == '2d':
            gen.build_package_2d(self.dir, case)
            self.dr = None
        else:
            gen.build_package_3d(self.dir, case)
            self.dr = gen.distance_range_quantity(case['setup'])
        self.fitter = self._make_fitter()
        self.sources = [gen.source_object(s) for s in case['sources']]
        self.bits = [source_bits(s) for s in self.sources]
        self.expected = {}
        self.ready = True

    @precondition(lambda self: self.ready and not self._dead)
    @rule(k=st.integers(0, 5))
    def fit(self, k):
        self.log('fit', k=k)
        self.guard(self._fit, k)

    def _fit(self, k):
        k = k % len(self.sources)
        if k not in self.expected:
            fresh = self._make_fitter()
            with must_succeed('Fitter.fit on a fresh fitter'), quiet():
                self.expected[k] = fg.snapshot(fresh.fit(gen.source_object(self.case['sources'][k])))
            del fresh
        with must_succeed('Fitter.fit'), quiet():
            info = self.fitter.fit(self.sources[k])
        diff = fg.diff_snapshots(fg.snapshot(info), self.expected[k])
        if diff:
            fail('after fitting sources %r, the fit of source %d differs from a fresh fitter\'s result in %s' % (
                self.history, k, diff), 'c11:history_dependent')
        if source_bits(self.sources[k]) != self.bits[k]:
            fail('Fitter.fit modified the source it was given (source %d)' % k, 'c11:source_modified')
        if info.source is not self.sources[k] and source_bits(info.source) != self.bits[k]:
            fail('the source attached to the result differs from the one given', 'c11:source_modified')
        self.history.append(k)

    @precondition(lambda self: self.ready and not self._dead)
    @rule(variant=st.sampled_from(['reversed_filters', 'other_av_range', 'other_distances']), k=st.integers(0, 5))
    def other_fitter(self, variant, k):
        """a SECOND fitter on the same package (other filter order / A_V range / distance range) is created, used and kept
        alive next to the first one: the first must go on returning what a fresh fitter returns"""
        self.log('other_fitter', variant=variant, k=k)
        self.guard(self._other_fitter, variant, k)

    def _other_fitter(self, variant, k):
        import copy
        case = copy.deepcopy(self.case)
        dr = self.dr
        av = list(case['av_ranges'][0])
        src = copy.deepcopy(case['sources'][k % len(case['sources'])])
        if variant == 'reversed_filters':
            case['filters'] = case['filters'][::-1]
            case['theta'] = case['theta'][::-1]
            if case.get('by_name'):
                case['by_name'] = [gen.named_filter(self.case, len(self.case['filters']) - 1 - j) for j in range(len(case['filters']))]
            for key in ('flags', 'flux', 'err'):
                src[key] = src[key][::-1]
        elif variant == 'other_av_range':
            av = [av[0] - 1., av[1] + 2.5]
        elif dr is not None:
            dr = dr * 1.37
        with must_succeed('a second Fitter() on the same package'), quiet():
            other = gen.make_fitter(self.dir, case, av, distance_range=dr)
            other.fit(gen.source_object(src))
        self.others = getattr(self, 'others', []) + [other]
        self.n_others = getattr(self, 'n_others', 0) + 1

    def finish(self):
        h = self.history
        again = any(h[i] == h[j] and any(h[m] != h[i] for m in range(i + 1, j))
                    for i in range(len(h)) for j in range(i + 2, len(h)))
        labels = {'history_len=%d' % min(len(h), 6)}
        if getattr(self, 'n_others', 0):
            labels.add('second_fitter_alive')
        if self.case.get('memmap'):
            labels.add('memmap')
        return labels, len(h) >= 3 and again


ENTRIES = {'permute': run_permute, 'rescale': run_rescale}
MACHINES = {'history': HistoryMachine}


def plan(ctx):
    ctx.run_given('permute', permute_cases(), ctx.scale(25, 500))
    ctx.run_given('rescale', rescale_cases(), ctx.scale(30, 600))
    ctx.run_machine('history', ctx.scale(15, 300), 8, shrink=not ctx.quick)
