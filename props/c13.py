"""
C13 - aperture interpolation: exact at tabulated radii, linear between, clamped above, refused below.

Oracle: hand-written linear interpolation (vlib/oracle_misc.interp_aperture).
Entries: conv (ConvolvedFluxes.interpolate, Quantity requests in the table's or another unit), sed (SED.interpolate with
bare AU numbers as plot.py passes them, or quantities), variable (SED.interpolate_variable at filter wavelengths).
"""
import numpy as np
from hypothesis import strategies as st

from vlib import gen
from vlib import oracle_misc as om
from vlib.runner import fail, must_succeed

PROPERTY_ID = 'C13'
LEVEL = 'exploration'
DESIGN_REF = 'DESIGN.md section 3, C13'
RULE = ('Hypothesis generates tables with 1..8 strictly increasing apertures (log-uniform 1..1e6 AU, stored in AU / pc / '
        'cm), 1..6 models (or 2..12 wavelengths for SEDs) with arbitrary positive values, and 1..8 requests of kinds '
        '{exactly a knot, strictly between two knots, above the largest, below the smallest}, in the table unit or another '
        'length unit, as quantities or bare AU numbers. Non-trivial = >= 2 tabulated apertures and a request strictly '
        'between knots or beyond the table; distinct = distinct canonical JSON.')
RULE += (' ' + 'Also: requests 3e-5..1e-8 (relative) away from a tabulated radius, a second call after an in-place edit of the table.')
RULE += (' ' + 'Aperture tables stored ascending / descending / rotated; Quantity requests to SED.interpolate in AU / pc / cm.')
ASSUMPTIONS = [
    'tolerance 1e-12 relative in the table unit, 1e-9 when the request is converted between units (continuous function)',
    'interpolate_variable deliberately uses 0.999 x the largest aperture for requests beyond the table: any value between '
    'the interpolants at 0.999 max and max is accepted there',
    'a request below the smallest aperture must raise; requests within 1e-9 relative of the smallest knot are not generated',
]

UFAC = {'au': 1., 'pc': 1. / 206264.80624709636, 'cm': 1.495978707e13}


def U(name):
    from astropy import units as u
    return {'au': u.au, 'pc': u.pc, 'cm': u.cm}[name]


def stored_index(case):
    """order in which the aperture axis is STORED in the object (the abstract table stays ascending)"""
    n = len(case['apertures'])
    how = case.get('ap_store', 'asc')
    if how == 'desc':
        return list(range(n))[::-1]
    if how == 'rot':
        return list(range(1, n)) + [0]
    return list(range(n))


def bracket(aps, col, req):
    """|y_lo| + |y_hi| of the table interval that holds the request (0 on / beyond the ends)"""
    for i in range(len(aps) - 1):
        if aps[i] < req < aps[i + 1]:
            return abs(col[i]) + abs(col[i + 1])
    return 0.


@st.composite
def requests(draw, aps, allow_below=True):
    out = []
    kinds = ['knot', 'between', 'above', 'near'] + (['below'] if allow_below else [])
    for _ in range(draw(st.integers(1, 8))):
        kind = draw(st.sampled_from(kinds))
        if kind == 'knot' or (kind in ('between', 'near') and len(aps) == 1):
            out.append(draw(st.sampled_from(aps)))
        elif kind == 'near':
            # a request a few parts per million (down to 1e-8) away from a tabulated radius is NOT that radius: computed
            # apertures (theta x d) land there
            i = draw(st.integers(0, len(aps) - 1))
            delta = 10. ** -draw(st.floats(4.5, 8., allow_nan=False))
            up = draw(st.booleans()) or i == 0
            out.append(aps[i] * (1. + delta) if up else aps[i] * (1. - delta))
        elif kind == 'between':
            i = draw(st.integers(0, len(aps) - 2))
            t = draw(st.floats(0.01, 0.99, allow_nan=False))
            out.append(aps[i] + t * (aps[i + 1] - aps[i]))
        elif kind == 'above':
            out.append(aps[-1] * draw(gen.logfloat(1.0001, 1e3)))
        else:
            out.append(aps[0] / draw(gen.logfloat(1.001, 1e3)))
    return out


@st.composite
def conv_case(draw):
    nap = draw(st.integers(1, 8))
    nm = draw(st.integers(1, 6))
    aps = draw(gen.increasing(nap, 1., 1e6, 1.05))
    return {'apertures': aps, 'names': ['m%d' % (i * 3 % 7) + '_%d' % i for i in range(nm)],
            'flux': [[draw(gen.logfloat(1e-3, 1e3)) for _ in range(nap)] for _ in range(nm)],
            'err': [[draw(gen.logfloat(1e-5, 1e1)) for _ in range(nap)] for _ in range(nm)],
            'table_unit': draw(st.sampled_from(['au', 'au', 'pc', 'cm'])), 'request_unit': draw(st.sampled_from(['au', 'au', 'pc', 'cm'])),
            'requests': draw(requests(aps)), 'wav': draw(gen.logfloat(0.1, 500.)),
            'ap_store': draw(st.sampled_from(['asc', 'asc', 'desc', 'rot']))}


def run_conv(case, ctx):
    from astropy import units as u
    from sedfitter.convolved_fluxes import ConvolvedFluxes
    aps = case['apertures']
    nm, nap = len(case['names']), len(aps)
    labels = {'table_' + case['table_unit'], 'request_' + case['request_unit'], 'single_aperture' if nap == 1 else 'multi_aperture'}
    cf = ConvolvedFluxes()
    with must_succeed('building ConvolvedFluxes'):
        cf.model_names = np.array(case['names'])
        cf.central_wavelength = case['wav'] * u.micron
        aidx = stored_index(case)
        cf.apertures = np.array([aps[a] * UFAC[case['table_unit']] for a in aidx]) * U(case['table_unit'])
        cf.flux = np.array([[row[a] for a in aidx] for row in case['flux']]) * u.mJy
        cf.error = np.array([[row[a] for a in aidx] for row in case['err']]) * u.mJy
    labels.add('apertures_stored_' + case.get('ap_store', 'asc'))
    reqs = case['requests']
    below = [r for r in reqs if r < aps[0]] if nap > 1 else []
    same = case['table_unit'] == case['request_unit']
    rtol = 1e-12 if same else 1e-9
    q = np.array([r * UFAC[case['request_unit']] for r in reqs]) * U(case['request_unit'])
    if below:
        labels.add('request_below')
        try:
            cf.interpolate(q)
        except Exception:  # noqa: refusal expected
            return labels, nap >= 2
        fail('a request of %r AU below the smallest tabulated aperture %r AU was not refused' % (min(below), aps[0]),
             'c13:below_not_refused')
    if not same and nap > 1 and aps[0] in reqs:
        # the smallest knot expressed in another unit may round to just below the table: refusing it is acceptable
        try:
            r = cf.interpolate(q)
        except Exception:  # noqa
            return labels | {'smallest_knot_other_unit_refused'}, False
    else:
        with must_succeed('ConvolvedFluxes.interpolate (table in %s, requests in %s)' % (case['table_unit'], case['request_unit'])):
            r = cf.interpolate(q)
    if [str(x) for x in r.model_names] != case['names']:
        fail('interpolate changed the model names / order: %r' % list(r.model_names), 'c13:names_changed')
    if not (abs(r.central_wavelength.to(u.micron).value - case['wav']) <= 1e-14 * case['wav']):
        fail('interpolate changed the wavelength', 'c13:wavelength_changed')
    fv, ev = np.asarray(r.flux.to(u.mJy).value), np.asarray(r.error.to(u.mJy).value)
    if fv.shape != (nm, len(reqs)) or ev.shape != (nm, len(reqs)):
        fail('interpolated flux has shape %r for %d models x %d requests' % (fv.shape, nm, len(reqs)), 'c13:shape')
    ra = r.apertures.to(u.au).value
    if len(ra) != len(reqs):
        fail('returned apertures have length %d' % len(ra), 'c13:shape')
    nontrivial = False
    for j, req in enumerate(reqs):
        kind = 'on a knot' if req in aps else ('beyond the table' if req > aps[-1] else 'between knots')
        if kind != 'on a knot' and nap >= 2:
            nontrivial = True
        labels.add('req_' + kind.replace(' ', '_'))
        if not (abs(ra[j] - req) <= 1e-9 * req or (req > aps[-1] and abs(ra[j] - aps[-1]) <= 1e-9 * aps[-1])):
            fail('returned aperture %r AU for a request of %r AU' % (ra[j], req), 'c13:returned_apertures')
        for m in range(nm):
            wf = om.interp_aperture(aps, case['flux'][m], req)
            we = om.interp_aperture(aps, case['err'][m], req)
            tol = rtol if kind != 'on a knot' or not same else 1e-12
            # any evaluation order of a linear interpolant carries a few eps x (|y_lo| + |y_hi|) of absolute rounding, times
            # x / (x_hi - x_lo) <= 21 when table and request went through a unit factor (1 ulp each)
            span = max(case['flux'][m]) if not same else abs(wf) + 0.1 * bracket(aps, case['flux'][m], req)
            if not (abs(fv[m][j] - wf) <= tol * max(abs(wf), span)):
                fail('request %r AU (%s; table %r AU): flux of %s is %r, %s gives %r' % (
                    req, kind, aps, case['names'][m], fv[m][j],
                    'the tabulated value' if kind == 'on a knot' else ('the largest-aperture value' if req > aps[-1] else 'linear interpolation'),
                    wf), 'c13:flux_interpolation')
            spane = max(case['err'][m]) if not same else abs(we) + 0.1 * bracket(aps, case['err'][m], req)
            if not (abs(ev[m][j] - we) <= tol * max(abs(we), spane)):
                fail('request %r AU (%s): error of %s is %r, expected %r' % (req, kind, case['names'][m], ev[m][j], we),
                     'c13:error_interpolation')
    # the table is usually filled IN PLACE (as the convolution code does): a second call must see the edited table
    if nap >= 2 and not below:
        m_edit = len(reqs) % nm
        with must_succeed('editing flux / error in place'):
            cf.flux[m_edit, :] = cf.flux[m_edit, :] * 3.5
            cf.error[m_edit, :] = cf.error[m_edit, :] * 0.25
        q2 = np.array([r * UFAC[case['request_unit']] for r in reqs]) * U(case['request_unit'])
        try:
            r2 = cf.interpolate(q2)
        except Exception as exc:  # noqa
            if not same and aps[0] in reqs:
                return labels, nontrivial
            fail('second interpolate() raised %s: %s' % (type(exc).__name__, exc), 'c13:second_call')
        f2, e2 = np.asarray(r2.flux.to(u.mJy).value), np.asarray(r2.error.to(u.mJy).value)
        for j, req in enumerate(reqs):
            wf = om.interp_aperture(aps, [v * 3.5 for v in case['flux'][m_edit]], req)
            we = om.interp_aperture(aps, [v * 0.25 for v in case['err'][m_edit]], req)
            if not (abs(f2[m_edit][j] - wf) <= 1e-9 * max(abs(wf), 3.5 * max(case['flux'][m_edit]))) or \
                    not (abs(e2[m_edit][j] - we) <= 1e-9 * max(abs(we), max(case['err'][m_edit]))):
                fail('after editing the table of %s in place, a second interpolate() at %r AU gives %r +- %r, the edited table '
                     'gives %r +- %r' % (case['names'][m_edit], req, f2[m_edit][j], e2[m_edit][j], wf, we), 'c13:stale_after_edit')
        labels.add('second_call_after_in_place_edit')
    return labels, nontrivial


@st.composite
def sed_case(draw, variable=False):
    nap = draw(st.integers(1, 8))
    nw = draw(st.integers(2, 12))
    aps = draw(gen.increasing(nap, 1., 1e6, 1.05))
    wav = draw(gen.increasing(nw, 0.1, 1000., 1.05))
    c = {'apertures': aps, 'wav': wav, 'flux': [[draw(gen.logfloat(1e-3, 1e3)) for _ in range(nw)] for _ in range(nap)],
         'table_unit': draw(st.sampled_from(['au', 'au', 'pc', 'cm'])), 'as_quantity': draw(st.booleans()), 'sed_request_unit': draw(st.sampled_from(['au', 'au', 'pc', 'cm'])),
         'sed_order': draw(st.sampled_from(['asc', 'desc'])), 'ap_store': draw(st.sampled_from(['asc', 'asc', 'desc', 'rot']))}
    if variable:
        nf = draw(st.integers(2, min(6, nw)))
        which = sorted(draw(st.permutations(list(range(nw))))[:nf])
        c['filter_idx'] = list(draw(st.permutations(which)))
        c['requests'] = draw(requests(aps, allow_below=False).map(lambda r: (r * nf)[:nf]))
        if draw(st.integers(0, 5)) == 0:
            c['requests'][0] = aps[0] / 3.
    else:
        c['requests'] = draw(requests(aps))
    return c


def make_sed(case):
    from astropy import units as u
    from sedfitter.sed import SED
    s = SED()
    idx = list(range(len(case['wav'])))
    if case['sed_order'] == 'desc':
        idx = idx[::-1]
    s.name = 'x'
    s.distance = 1. * u.kpc
    s.wav = np.array([case['wav'][i] for i in idx]) * u.micron
    s.nu = s.wav.to(u.Hz, equivalencies=u.spectral())
    aidx = stored_index(case)
    s.apertures = np.array([case['apertures'][a] * UFAC[case['table_unit']] for a in aidx]) * U(case['table_unit'])
    s.flux = np.array([[case['flux'][a][i] for i in idx] for a in aidx]) * u.mJy
    s.error = s.flux * 0.1
    return s, idx


def run_sed(case, ctx):
    from astropy import units as u
    aps = case['apertures']
    nap, nw = len(aps), len(case['wav'])
    labels = {'table_' + case['table_unit'], 'quantity' if case['as_quantity'] else 'bare_AU_numbers',
              'single_aperture' if nap == 1 else 'multi_aperture'}
    with must_succeed('building an SED'):
        s, idx = make_sed(case)
    reqs = case['requests']
    arg = np.array(reqs, dtype=float)
    ru = case.get('sed_request_unit', 'au') if case['as_quantity'] else 'au'
    if case['as_quantity']:
        # a Quantity request may be in any length unit
        arg = np.array([r * UFAC[ru] for r in reqs]) * U(ru)
        labels.add('quantity_request_in_' + ru)
    below = [r for r in reqs if r < aps[0]] if nap > 1 else []
    if below:
        labels.add('request_below')
        try:
            s.interpolate(arg)
        except Exception:  # noqa
            return labels, nap >= 2
        fail('SED.interpolate did not refuse %r AU below the smallest aperture %r AU' % (min(below), aps[0]), 'c13:below_not_refused')
    if (case['table_unit'] != 'au' or ru != 'au') and nap > 1 and aps[0] in reqs:
        try:
            out = s.interpolate(arg)
        except Exception:  # noqa: the smallest knot stored in another unit may round above the request
            return labels | {'smallest_knot_other_unit_refused'}, False
    else:
        with must_succeed('SED.interpolate(%s)' % ('Quantity in %s' % ru if case['as_quantity'] else 'bare AU numbers')):
            out = s.interpolate(arg)
    out = np.asarray(getattr(out, 'value', out), dtype=float)
    if out.shape != (nw, len(reqs)):
        fail('SED.interpolate returned shape %r for %d wavelengths x %d requests' % (out.shape, nw, len(reqs)), 'c13:shape')
    rtol = 1e-12 if case['table_unit'] == 'au' and ru == 'au' else 1e-9
    nontrivial = False
    for j, req in enumerate(reqs):
        if req not in aps and nap >= 2:
            nontrivial = True
        for p, i in enumerate(idx):
            want = om.interp_aperture(aps, [case['flux'][a][i] for a in range(nap)], req)
            span = max(case['flux'][a][i] for a in range(nap))
            if not (abs(out[p][j] - want) <= rtol * max(abs(want), span)):
                fail('SED.interpolate: request %r AU (table %r AU) at %r micron gives %r, expected %r' % (
                    req, aps, case['wav'][i], out[p][j], want), 'c13:sed_interpolation')
    return labels, nontrivial


def run_variable(case, ctx):
    from astropy import units as u
    aps = case['apertures']
    nap, nw = len(aps), len(case['wav'])
    labels = {'table_' + case['table_unit'], 'single_aperture' if nap == 1 else 'multi_aperture'}
    with must_succeed('building an SED'):
        s, idx = make_sed(case)
    fidx = case['filter_idx']
    fw = np.array([case['wav'][i] for i in fidx], dtype=float)
    reqs = case['requests'][:len(fidx)]
    fa = np.array(reqs, dtype=float)
    below = [r for r in reqs if r < aps[0]] if nap > 1 else []
    if below:
        labels.add('request_below')
        try:
            s.interpolate_variable(fw, fa)
        except Exception:  # noqa
            return labels, nap >= 2
        fail('interpolate_variable did not refuse %r AU below the smallest aperture' % min(below), 'c13:below_not_refused')
    if case['table_unit'] != 'au' and nap > 1 and aps[0] in reqs:
        try:
            out = s.interpolate_variable(fw, fa)
        except Exception:  # noqa
            return labels | {'smallest_knot_other_unit_refused'}, False
    else:
        with must_succeed('SED.interpolate_variable'):
            out = s.interpolate_variable(fw, fa)
    out = np.asarray(getattr(out, 'value', out), dtype=float)
    if out.shape != (nw,):
        fail('interpolate_variable returned shape %r for %d wavelengths' % (out.shape, nw), 'c13:shape')
    nontrivial = False
    for f, req in zip(fidx, reqs):
        p = idx.index(f)
        col = [case['flux'][a][f] for a in range(nap)]
        if nap == 1:
            lo = hi = col[0]
        elif req > aps[-1] or (case['table_unit'] != 'au' and req >= aps[-1] * (1. - 1e-12)):
            # beyond the table - or ON the largest knot of a table stored in another unit, whose conversion to AU may
            # round it just below the request: the code then deliberately uses 0.999 x max
            a, b = om.interp_aperture(aps, col, 0.999 * aps[-1]), col[-1]
            lo, hi = min(a, b), max(a, b)
            nontrivial = True
        else:
            lo = hi = om.interp_aperture(aps, col, req)
            if req not in aps:
                nontrivial = True
        span = max(col)
        if not (lo - 1e-9 * span <= out[p] <= hi + 1e-9 * span):
            fail('interpolate_variable: at the filter wavelength %r micron (aperture %r AU, table %r AU) the composite SED is '
                 '%r, the linear interpolant at that aperture is %r' % (case['wav'][f], req, aps, out[p], (lo, hi) if lo != hi else lo),
                 'c13:variable_interpolation')
    return labels, nontrivial and nap >= 2


ENTRIES = {'conv': run_conv, 'sed': run_sed, 'variable': run_variable}


def plan(ctx):
    ctx.run_given('conv', conv_case(), ctx.scale(100, 2000))
    ctx.run_given('sed', sed_case(), ctx.scale(80, 1500))
    ctx.run_given('variable', sed_case(variable=True), ctx.scale(80, 1500))
