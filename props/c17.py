"""
C17 - plotted model SEDs are the fitted models.

Cube packages (single / multi aperture, distance-dependent or not) are fitted at tabulated wavelengths; plot(...,
output_dir=None) returns a LineCollection whose segments are compared with the predicted fluxes stored with the fit:
number of curves, best fit last, and each curve passing through 10^(model_fluxes-26)*c/lambda at the wavelengths of
the filters whose aperture it shows.
"""
import os
import math

import numpy as np
from hypothesis import strategies as st

from vlib import gen
from vlib import fitinfo_gen as fg
from vlib import oracle_fit as of
from vlib import oracle_misc as om
from vlib.runner import fail, must_succeed, quiet

PROPERTY_ID = 'C17'
LEVEL = 'exploration'
DESIGN_REF = 'DESIGN.md section 3, C17'
RULE = ('Hypothesis generates cube packages and per-file packages (SED files in seds/ or in sub-directories, plain or .gz; 1..6 models, 2..5 wavelength filters, 1..6 apertures, distance-dependent or '
        'not), per-filter angular apertures drawn from a small set (so that filters share apertures), sources planted near '
        'the models, 1..5 selected fits, a display mode from {interp, largest, largest+smallest, all} and the input form '
        '(object or file). One evaluation = one fit + one plot() call. Non-trivial = >= 2 selected fits and (multi-aperture '
        'package or >= 2 distinct filter apertures); distinct = distinct canonical JSON.')
RULE += (' ' + 'Also varied: the result re-ranked by FitInfo.sort() before plotting.')
RULE += (' ' + 'A third of the cases regenerate the package in the same directory with other fluxes, refit and plot again.')
RULE += (' ' + 'Nearly half of the cases hand one or two further sources (same Fitter, other photometry) to the same plot() call, before and/or after the generated one; the curves of every source are examined.')
RULE += (' ' + 'The wavelength axis of the cube is typed in micron, nm, mm or Angstrom.')
ASSUMPTIONS = [
    'curves are compared at 1.5e-3 relative (plot.py rounds kpc to 3.086e21 cm and c to 3e8 m/s)',
    'for apertures beyond the table the composite curve may use 0.999 x the largest aperture: any value between the '
    'interpolants at 0.999 max and max is accepted',
    'groups of curves other than the last (best fit) may appear in any order',
]

C_UM = 2.99792458e14  # micron/s


@st.composite
def cases(draw):
    apdep = draw(st.booleans())
    if apdep:
        c = draw(gen.fit_case_3d(max_models=6, max_filters=5, max_sources=1, formats=('v2wav',), apmin=1))
        nf = len(c['filters'])
        if nf < 2:
            # at least two filters so that the wavelength-dependent aperture interpolation is defined
            c['filters'].append({'name': 'extra', 'wav': c['filters'][0]['wav'] * 2.37})
            for m in range(len(c['grid']['names'])):
                c['grid']['flux'][m].append([v * 1.7 for v in c['grid']['flux'][m][0]])
            for s in c['sources']:
                s['flags'].append(1)
                s['flux'].append(1.3)
                s['err'].append(0.2)
            nf = 2
        # share apertures between filters: re-draw theta from a small set that respects the smallest tabulated aperture
        base = c['setup']['theta'][0]
        pool = [base, base * 1.5, base * 4.]
        theta = [max(min(c['setup']['theta']), draw(st.sampled_from(pool))) for _ in range(nf)]
        tmin = min(c['setup']['theta'])
        theta = [t if t >= tmin else tmin for t in theta]
        c['setup']['theta'] = theta
        c['theta'] = theta
    else:
        c = draw(gen.fit_case_2d(max_models=6, max_filters=5, max_sources=1, formats=('v2wav',)))
        nf = len(c['filters'])
        c['theta'] = [draw(st.sampled_from([1., 3., 3., 10.])) for _ in range(nf)]
    c['memmap'] = False
    c['apdep'] = apdep
    # the package the fit was made from: a cube, or a per-file package (convolved files at the filter wavelengths + one SED
    # file per model, directly in seds/ or in sub-directories, plain or gzip-compressed)
    c['pkg'] = draw(st.sampled_from(['cube', 'cube', 'perfile']))
    c['sed_layout'] = draw(st.sampled_from(['flat', 'gz', 'sub', 'sub_gz']))
    c['sed_storage'] = draw(st.sampled_from(['asc', 'desc']))
    if c['pkg'] == 'perfile':
        c['format'] = 'v1'
        c['ap_count_by_filter'] = None
        if any(len(x) > 30 for x in c['grid']['names']):
            # convolved-flux files hold 30-character names: longer ones only exist in cube packages
            c['grid']['names'] = ['m%03d_%s' % (i, x[-8:]) for i, x in enumerate(c['grid']['names'])]
    # the unit the wavelength axis of the cube is typed in
    c['cube_wav_unit'] = draw(st.sampled_from(['um', 'um', 'nm', 'mm', 'AA']))
    if c['cube_wav_unit'] != 'um':
        # only where the typed numbers convert back to exactly the fitted wavelengths: a wavelength that moves by one ulp may
        # leave the extinction law at an end node (the fit reddens at the wavelength asked for, the plot at the tabulated
        # one), which is a matter of rounding and not of this property
        from astropy import units as u_
        name, fac = gen.CUBE_WAV_UNITS[c['cube_wav_unit']]
        ends = (c['law']['wav'][0], c['law']['wav'][-1])
        if not all(float(((f['wav'] * fac) * u_.Unit(name)).to(u_.micron).value) == f['wav'] for f in c['filters']) or \
                any(abs(f['wav'] - e) <= 1e-6 * e for f in c['filters'] for e in ends):
            c['cube_wav_unit'] = 'um'
    c['sed_type'] = draw(st.sampled_from(['interp', 'largest', 'largest+smallest', 'all']))
    c['nsel'] = draw(st.integers(1, 5))
    c['input'] = draw(st.sampled_from(['object', 'file']))
    # the result may have been ranked again by the caller (FitInfo.sort() is public, e.g. after adding a prior to chi2)
    c['resort'] = draw(st.integers(0, 2)) == 0
    c['second_generation'] = draw(st.integers(0, 2)) == 0
    # further sources handed to the same plot() call (fitted with the same Fitter, so every model is shared), before and
    # after the one that is examined; each of them is examined too
    c['companions'] = draw(st.sampled_from([[], [], [], ['before'], ['after'], ['before', 'after'], ['after', 'after']]))
    c['av_range'] = draw(st.sampled_from([[0., 10.], [0., 0.5], [1., 1.], [-1., 30.]]))
    return c


def write_sed_files(mdir, case, apdep):
    """one SED file per model on the wavelengths of the filters (the per-file counterpart of the cube of build_package_*)"""
    from vlib import pkgio
    names = case['grid']['names']
    filters = case['filters']
    order = sorted(range(len(filters)), key=lambda j: filters[j]['wav'])
    if case.get('sed_storage') == 'desc':
        order = order[::-1]
    wav = [filters[j]['wav'] for j in order]
    layout = case.get('sed_layout', 'flat')
    sub = 3 if layout.startswith('sub') else 0
    pkgio.write_conf(mdir, apdep, case['setup']['step'] if apdep else 0.02, version=None, length_subdir=sub,
                     style=case.get('conf_style', 0))
    os.mkdir(os.path.join(mdir, 'seds'))
    for m, name in enumerate(names):
        if apdep:
            aps = case['grid']['apertures']
            flux = [[case['grid']['flux'][m][j][a] for j in order] for a in range(len(aps))]
        else:
            aps = None
            flux = [[10. ** case['grid']['logflux'][m][j] for j in order]]
        err = [[0.05 * v for v in row] for row in flux]
        sdir = os.path.join(mdir, 'seds')
        if sub:
            sdir = os.path.join(sdir, name[:sub])
            if not os.path.isdir(sdir):
                os.mkdir(sdir)
        pkgio.write_sed_file(os.path.join(sdir, name + '_sed.fits' + ('.gz' if layout.endswith('gz') else '')), name, wav,
                             pkgio.wav_to_nu(wav), aps, flux, err, distance_cm=3.0856775814913674e21)


def regenerated(case):
    """the same package description with the model fluxes re-assigned: model i gets the (rescaled) fluxes of model i+1"""
    import copy
    c = copy.deepcopy(case)
    g = c['grid']
    n = len(g['names'])
    if 'logflux' in g:
        g['logflux'] = [[v + 0.17 * (j + 1) for j, v in enumerate(case['grid']['logflux'][(i + 1) % n])] for i in range(n)]
    else:
        g['flux'] = [[[v * (1.5 + 0.25 * j) for v in col] for j, col in enumerate(case['grid']['flux'][(i + 1) % n])] for i in range(n)]
    return c


def verify_curves(case, src, pred, figs, nsel, aps):
    """the curves plot() returned for one source against the fits stored for it"""
    import itertools
    apdep = case['apdep']
    names = case['grid']['names']
    nf = len(case['filters'])
    theta = case['theta']
    uniq = sorted(set(theta))
    who = '' if src['name'] == case['sources'][0]['name'] else 'source %s (plotted in the same call): ' % src['name']
    if src['name'] not in figs or 'lines' not in figs[src['name']]:
        fail(who + 'plot() returned no curves for the source', 'c17:no_lines')
    segs = [np.asarray(s, dtype=float) for s in figs[src['name']]['lines'].get_segments()]
    mode = case['sed_type']
    shown = {'interp': [None], 'largest': [max(theta)], 'largest+smallest': [min(theta), max(theta)], 'all': uniq}[mode]
    count = len(shown)
    if len(segs) != nsel * count:
        fail(who + '%d curves drawn for %d selected fits in display mode %r (%d aperture(s) shown per fit: expected %d)' % (
            len(segs), nsel, mode, count, nsel * count), 'c17:curve_count')
    groups = [segs[g * count:(g + 1) * count] for g in range(nsel)]

    def mismatch(group, p):
        """None if this group of curves is the fit p, else a description"""
        m = names.index(p['name'])
        d_kpc = 10. ** p['sc']
        for j in range(nf):
            lam = case['filters'][j]['wav']
            want = 10. ** (p['mf'][j] - 26.) * C_UM / lam
            lo = hi = want
            if mode == 'interp':
                curve = group[0]
                if apdep and len(aps) > 1 and theta[j] * d_kpc * 1000. > aps[-1]:
                    # beyond the table: 0.999 x max bracket
                    col = case['grid']['flux'][m][j]
                    alt = om.interp_aperture(aps, col, 0.999 * aps[-1]) / col[-1] * want
                    lo, hi = min(want, alt), max(want, alt)
            else:
                if theta[j] not in shown:
                    continue
                curve = group[shown.index(theta[j])]
            if curve.ndim != 2 or curve.shape[0] == 0:
                return 'a drawn curve has no finite points (shape %r)' % (curve.shape,)
            x = curve[:, 0]
            p_idx = int(np.argmin(np.abs(x - lam)))
            if not (abs(x[p_idx] - lam) <= 1e-9 * lam):
                return 'curve has no point at the fitted wavelength %r micron' % lam
            y = curve[p_idx, 1]
            if not (lo * (1 - 1.5e-3) <= y <= hi * (1 + 1.5e-3)):
                return ('at %r micron (filter %d, aperture %r") the curve has %r, the predicted flux stored with the fit '
                        '(model %s, A_V=%r, scale=%r) is %r' % (lam, j, theta[j], y, p['name'], p['av'], p['sc'], want))
        return None

    why = mismatch(groups[-1], pred[0])
    if why is not None:
        # is the best fit drawn somewhere else?
        elsewhere = [g for g in range(nsel - 1) if mismatch(groups[g], pred[0]) is None]
        if elsewhere:
            fail(who + 'the best fit is not drawn last (it is group %d of %d)' % (elsewhere[0] + 1, nsel), 'c17:best_not_last')
        fail(who + 'display mode %r, best fit: %s' % (mode, why), 'c17:curve_not_through_prediction')
    # the other groups may be drawn in any order: look for a one-to-one assignment (the 0.999-max bracket can make a
    # fit compatible with several groups, so a greedy choice is not enough)
    import itertools
    rest = pred[1:]
    table = [[mismatch(groups[g], p) for g in range(nsel - 1)] for p in rest]
    assigned = any(all(table[r][perm[r]] is None for r in range(len(rest)))
                   for perm in itertools.permutations(range(nsel - 1)))
    if not assigned:
        for r, p in enumerate(rest):
            if all(w is not None for w in table[r]):
                fail(who + 'display mode %r, fit of model %s: no drawn curve matches it: %s' % (mode, p['name'], table[r][-1 - r] or table[r][0]),
                     'c17:curve_not_through_prediction')
        fail(who + 'display mode %r: the drawn curves cannot be assigned one-to-one to the selected fits %r' % (
            mode, [p['name'] for p in rest]), 'c17:curve_not_through_prediction')


def run_case(case, ctx):
    from astropy import units as u
    import sedfitter
    apdep = case['apdep']
    names = case['grid']['names']
    nf = len(case['filters'])
    k = of.extinction_pattern(case['law']['wav'], case['law']['chi'], [f['wav'] for f in case['filters']])
    theta = case['theta']
    uniq = sorted(set(theta))
    labels = {'apdep' if apdep else 'not_apdep', 'sed_type_' + case['sed_type'], 'input_' + case['input'],
              'unique_apertures=%d' % len(uniq)}
    src = case['sources'][0]
    if not any(f in (1, 4) for f in src['flags']):
        return labels | {'no_fitted_point_skipped'}, False
    with ctx.tempdir() as d:
        base_case = case
        for generation in range(2 if case.get('second_generation') else 1):
            if generation == 1:
                # the package is regenerated IN THE SAME DIRECTORY with other fluxes behind the same model names (a model
                # grid re-computed by the script that made it), fitted and plotted again in the same process
                import shutil
                case = regenerated(base_case)
                shutil.rmtree(os.path.join(d, 'models'))
                labels.add('package_regenerated_in_place')
            mdir = os.path.join(d, 'models')
            os.mkdir(mdir)
            if apdep:
                gen.build_package_3d(mdir, case)
                dr = gen.distance_range_quantity(case['setup'])
                aps = case['grid']['apertures']
            else:
                gen.build_package_2d(mdir, case)
                dr = None
                aps = None
            if case.get('pkg') == 'perfile':
                write_sed_files(mdir, case, apdep)
                labels.add('per_file_package_' + case.get('sed_layout', 'flat'))
            else:
                labels.add('cube_package')
                labels.add('cube_wavelengths_in_' + case.get('cube_wav_unit', 'um'))
            with must_succeed('Fitter()'), quiet():
                fitter = gen.make_fitter(mdir, case, case['av_range'], distance_range=dr)
            # the sources of this plot() call: the generated one plus its companions (same flags, other photometry)
            todo = []
            for ci, where in enumerate(case.get('companions') or []):
                comp = dict(src, name='companion%d' % ci,
                            flux=[v * (1.4 + 0.45 * ci + 0.3 * j) if f in (1, 2, 3) else v + 0.1 * (ci + 1) * (j + 1)
                                  for j, (f, v) in enumerate(zip(src['flags'], src['flux']))])
                comp.pop('int_arrays', None)
                todo.append((where, comp))
            ordered = [c_ for w_, c_ in todo if w_ == 'before'] + [src] + [c_ for w_, c_ in todo if w_ == 'after']
            infos = []
            for one in ordered:
                with must_succeed('Fitter.fit'), quiet():
                    info = fitter.fit(gen.source_object(one))
                if not np.all(np.isfinite(info.chi2)) or not np.all(np.isfinite(info.av)):
                    return labels | {'singular_fit_skipped'}, False
                if case.get('resort'):
                    with must_succeed('FitInfo.sort() on a fit result'):
                        info.sort()
                    labels.add('result_sorted_again')
                infos.append(info)
            nsel = min(case['nsel'], len(names))
            sel = ('N', nsel)
            # what the fits store
            preds = []
            for info in infos:
                pred = []
                for i in range(nsel):
                    pred.append({'name': str(info.model_name[i]).strip(), 'av': float(info.av[i]), 'sc': float(info.sc[i]),
                                 'mf': [float(v) for v in info.model_fluxes[i]]})
                if any(not (abs(v) <= 250.) for p in pred for v in p['mf']) or any(not (abs(p['sc']) <= 100.) for p in pred) or \
                        any(not (abs(p['av'] * kk) <= 100.) for p in pred for kk in k):
                    # the intermediate products (distance scaling x reddening) leave the float64 range
                    return labels | {'flux_out_of_float_range_skipped'}, False
                preds.append(pred)
            if case['input'] == 'file':
                path = os.path.join(d, 'out.fitinfo')
                fg.write_fit_file(path, infos)
                arg = path
            else:
                arg = infos[0] if len(infos) == 1 else infos
            with must_succeed('plot(sed_type=%r, %s input, %d source(s))' % (case['sed_type'], case['input'], len(infos))), quiet():
                figs = sedfitter.plot(arg, output_dir=None, select_format=sel, sed_type=case['sed_type'])
            import matplotlib.pyplot as plt
            plt.close('all')
            labels.add('sources_in_one_plot_call=%d' % len(infos))
            for one, pred in zip(ordered, preds):
                verify_curves(case, one, pred, figs, nsel, aps)
            del fitter
    multi = (apdep and len(case['grid']['apertures']) > 1) or len(uniq) >= 2
    return labels, nsel >= 2 and multi


ENTRIES = {'plot': run_case}


def plan(ctx):
    ctx.run_given('plot', cases(), ctx.scale(60, 1000), shrink=not ctx.quick)
