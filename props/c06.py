"""
C06 - broadband convolution is the binned integral of F_nu * R_nu.

Entries
  rebin  Filter.rebin on generated filters / SED grids: lattice mode (frequencies on an exactly representable lattice so
         that bin edges coincide with filter nodes and end points in a large measured share of cases) and irregular mode
         (log-uniform frequencies, other frequency units, filters read from two-column wavelength/response text files)
  e2e    convolve_model_dir on small per-file and cube packages written by the independent writer; convolved/*.fits read
         by the independent reader: flux = sum F*R, error = sqrt(sum (E*R)^2), linearity in the SED
Oracle: exact integration of the piecewise-linear response over SED bins in fractions.Fraction (vlib/oracle_misc.py).
"""
import os
import math
from fractions import Fraction as Fr

import numpy as np
from hypothesis import strategies as st

from vlib import gen, pkgio, convpkg
from vlib import oracle_misc as om
from vlib.runner import fail, must_succeed, quiet

PROPERTY_ID = 'C06'
LEVEL = 'exploration'
DESIGN_REF = 'DESIGN.md section 3, C06'
RULE = ('Entry "rebin": Hypothesis generates a filter (2..60 samples, non-negative responses with zero or non-zero edge '
        'values, increasing or decreasing frequency, in memory in Hz/GHz/THz or read from a wavelength/response text file) '
        'and an SED frequency grid (2..80 points, either order), either on a lattice of multiples of 0.5e11 Hz (filter) / '
        '1e11 Hz (SED) so that coincidences of bin edges with filter nodes / end points are frequent, or log-uniform; '
        'range relations covering / inside / partial / disjoint are all produced. Entry "e2e": small abstract packages '
        '(1..4 models, 1..3 apertures, 3..12 wavelengths, either storage order, per-file and cube format) x 1..3 filters. '
        'Non-trivial (rebin): the overlap contains >= 2 SED bins and >= 1 interior filter node; (e2e): >= 2 SED wavelengths '
        'inside a filter. distinct = distinct canonical JSON.')
RULE += (' ' + 'Also: integer-typed responses, repeated rebin of one filter object, frequencies re-assigned on a used filter (the next rebin must follow the current curve), per-model wavelength grids incl. same length and end points, stored units, SED files plain / .gz / in sub-directories.')
RULE += (' ' + 'A twin filter built from the same response array is normalised after the first one.')
RULE += (' ' + 'A third of the irregular SED grids hold a stretch sampled at 1e-7 .. 5e-6 relative spacing.')
ASSUMPTIONS = [
    'each R_i is compared with the exact value at 1e-12 x integral(|filter|) (1e-9 for filters read from text / other units)',
    'convolved fluxes at 1e-10 relative to sum|F R| for float64 data, 1e-5 for float32 cubes',
]

LATT = 0.5e11


@st.composite
def lattice_case(draw):
    nf = draw(st.one_of(st.integers(2, 8), st.integers(2, 60)))
    ns = draw(st.one_of(st.integers(2, 8), st.integers(2, 80)))
    span = max(draw(st.sampled_from([12, 40, 400])), 2 * max(nf, ns))
    # SED frequencies: distinct even lattice points (multiples of 1e11); filter: any lattice point (multiples of 0.5e11)
    s0 = draw(st.integers(1, span))
    sed = sorted(set(2 * (s0 + v) for v in draw(st.lists(st.integers(0, span), min_size=2, max_size=ns, unique=True))))
    while len(sed) < 2:
        sed.append(sed[-1] + 2)
    rel = draw(st.sampled_from(['any', 'any', 'inside', 'covering', 'touch_hi', 'touch_lo', 'disjoint']))
    lo, hi = sed[0], sed[-1]
    if rel == 'inside' and hi - lo >= 3:
        pool_lo, pool_hi = lo, hi
    elif rel == 'covering':
        pool_lo, pool_hi = max(1, lo - span), hi + span
    elif rel == 'disjoint':
        pool_lo, pool_hi = hi + 1, hi + span + 5
    else:
        pool_lo, pool_hi = max(1, lo - span // 2), hi + span // 2
    width = max(pool_hi - pool_lo, 3)
    fil = sorted(set(pool_lo + v for v in draw(st.lists(st.integers(0, width), min_size=2, max_size=min(nf, width + 1), unique=True))))
    while len(fil) < 2:
        fil.append(fil[-1] + 1)
    if rel == 'covering':
        fil[0] = min(fil[0], lo - 1) if lo > 1 else fil[0]
        fil[-1] = max(fil[-1], hi + 1)
        fil = sorted(set(fil))
    if rel == 'touch_hi':
        fil = sorted(set([v for v in fil if v < hi] + [hi]))   # filter ends exactly on the last SED frequency
        if len(fil) < 2:
            fil = [hi - 1, hi]
    if rel == 'touch_lo':
        fil = sorted(set([v for v in fil if v > lo] + [lo]))
        if len(fil) < 2:
            fil = [lo, lo + 1]
    resp = [draw(st.sampled_from([0., 0.25, 0.5, 1., 0.75, 2.])) for _ in fil]
    if draw(st.integers(0, 3)) == 0:
        resp = [float(draw(st.sampled_from([0, 1, 1, 2, 35, 80]))) for _ in fil]
    if draw(st.booleans()):
        resp[0] = resp[-1] = 0.
    if all(r == 0. for r in resp):
        resp[len(resp) // 2] = 1.
    return {'mode': 'lattice', 'filter_nu': [v * LATT for v in fil], 'response': resp, 'sed_nu': [v * LATT for v in sed],
            'filter_desc': draw(st.booleans()), 'sed_desc': draw(st.booleans()), 'unit': 'Hz', 'from_text': False}


@st.composite
def irregular_case(draw):
    nf = draw(st.one_of(st.integers(2, 8), st.integers(2, 60)))
    ns = draw(st.one_of(st.integers(2, 8), st.integers(2, 80)))
    a = draw(gen.logfloat(1e11, 1e15))
    b = a * draw(gen.logfloat(1.05, 100.))
    sed = draw(gen.increasing(ns, a, b, 1.001))
    if draw(st.integers(0, 2)) == 0:
        # a stretch of very fine sampling (a line region resolved at R ~ 1e6 inside a coarse continuum grid): bins only a few
        # 1e-7 .. 1e-6 of their frequency wide
        i0 = draw(st.integers(0, len(sed) - 1))
        eps = draw(gen.logfloat(1e-7, 5e-6))
        sed = sorted(set(sed + [sed[i0] * (1. + eps * j) for j in range(1, draw(st.integers(2, 8)))]))
    fa = a * draw(gen.logfloat(0.3, 3.))
    fb = fa * draw(gen.logfloat(1.05, 30.))
    fil = draw(gen.increasing(nf, fa, fb, 1.001))
    resp = [draw(st.one_of(st.just(0.), st.floats(1e-3, 1., allow_nan=False))) for _ in fil]
    if draw(st.booleans()):
        resp[0] = resp[-1] = 0.
    if all(r == 0. for r in resp):
        resp[len(resp) // 2] = 0.5
    from_text = draw(st.integers(0, 2)) == 0
    return {'mode': 'irregular', 'filter_nu': fil, 'response': resp, 'sed_nu': sed,
            'filter_desc': draw(st.booleans()), 'sed_desc': draw(st.booleans()),
            'unit': 'Hz' if from_text else draw(st.sampled_from(['Hz', 'GHz', 'THz'])), 'from_text': from_text}


def run_rebin(case, ctx):
    from astropy import units as u
    from sedfitter.filter import Filter
    fnu = list(case['filter_nu'])
    resp = list(case['response'])
    snu = list(case['sed_nu'])
    if case['filter_desc']:
        fnu, resp = fnu[::-1], resp[::-1]
    if case['sed_desc']:
        snu = snu[::-1]
    labels = {'mode_' + case['mode'], 'filter_desc' if case['filter_desc'] else 'filter_asc',
              'sed_desc' if case['sed_desc'] else 'sed_asc'}
    if any(b / a_ < 1.00001 for a_, b in zip(sorted(case['sed_nu']), sorted(case['sed_nu'])[1:])):
        labels.add('sed_bins_narrower_than_1e-5')
    exact = case['mode'] == 'lattice' and not case['from_text'] and case['unit'] == 'Hz'
    if case['from_text']:
        labels.add('from_text_file')
        with ctx.tempdir() as d:
            path = os.path.join(d, 'myfilt.txt')
            wav = [om.C_UM_HZ / v for v in fnu]
            pkgio.write_filter_file(path, 1.25, wav, resp)
            with must_succeed('Filter.read'):
                f = Filter.read(path)
        if f.name != 'myfilt' or not (abs(f.central_wavelength.to(u.micron).value - 1.25) <= 1e-12):
            fail('Filter.read: name %r / central wavelength %r' % (f.name, f.central_wavelength), 'c06:filter_read_meta')
        # the reference works on the frequencies the file actually encodes
        fnu_ref = [om.C_UM_HZ / w for w in wav]
    else:
        un = {'Hz': u.Hz, 'GHz': u.GHz, 'THz': u.THz}[case['unit']]
        scale = {'Hz': 1., 'GHz': 1e9, 'THz': 1e12}[case['unit']]
        f = Filter()
        f.name = 'gen'
        f.central_wavelength = 1.25 * u.micron
        with must_succeed('building a Filter'):
            f.nu = np.array([v / scale for v in fnu]) * un
            if all(float(r) == int(r) for r in resp) and len(fnu) % 2 == 0:
                f.response = np.array([int(r) for r in resp], dtype=np.int64)   # e.g. a top-hat given as 0/1
                labels.add('integer_typed_response')
            else:
                # a second filter is built from the same response array (one band shape used at two places): normalising one
                # of them must not change what the other one does
                given = np.array(resp, dtype=float)
                f.response = given
                twin = Filter()
                twin.name = 'twin'
                twin.central_wavelength = 2.5 * u.micron
                twin.nu = np.array([v / scale for v in fnu]) * un * 3.
                twin.response = given
        fnu_ref = fnu
        if case['unit'] != 'Hz':
            labels.add('unit_' + case['unit'])
    with must_succeed('Filter.rebin'):
        # the same filter object is re-binned onto other grids first (convolve does that whenever the SED grid changes)
        f.rebin(np.array(snu[::-1]) * u.Hz)
        f.rebin(np.array([v * 1.0009765625 for v in snu]) * u.Hz)
        g = f.rebin(np.array(snu) * u.Hz)
    R = [float(v) for v in g.response]
    if len(R) != len(snu):
        fail('rebinned response has %d values for %d SED frequencies' % (len(R), len(snu)), 'c06:rebin_length')
    ref, total = om.rebin_reference(fnu_ref, resp, snu)
    tot = float(total)
    rtol = 1e-12 if exact else 1e-9
    # (a) every R_i
    for i, (got, want) in enumerate(zip(R, ref)):
        if not (abs(got - float(want)) <= rtol * tot + 1e-300):
            fail('R[%d] (bin of nu=%r Hz) = %r, exact integral of the response over that bin = %r (filter integral %r; '
                 'filter %s, SED %s in frequency)' % (i, snu[i], got, float(want), tot,
                                                      'decreasing' if case['filter_desc'] else 'increasing',
                                                      'decreasing' if case['sed_desc'] else 'increasing'), 'c06:bin_integral')
    # (b) sum = integral over the overlap
    over = float(om.overlap_integral(fnu_ref, resp, snu))
    if not (abs(sum(R) - over) <= 10 * rtol * tot + 1e-300):
        fail('sum of the rebinned response %r != integral of the filter over the overlap %r' % (sum(R), over),
             'c06:sum_not_overlap_integral')
    # (b') the filter object that was just used gets new frequencies with the same number of samples (the band moved to a
    #      redshifted position, a corrected unit): the next rebin follows the curve the filter holds NOW, and moving it back
    #      gives the first answer again
    nu_before = f.nu
    with must_succeed('assigning new frequencies to a used filter and re-binning'):
        f.nu = nu_before / 1.25
        fnu2 = [float(v) for v in f.nu.to(u.Hz).value]
        g2 = f.rebin(np.array(snu) * u.Hz)
    ref2, total2 = om.rebin_reference(fnu2, resp, snu)
    for i, (got, want) in enumerate(zip([float(v) for v in g2.response], ref2)):
        if not (abs(got - float(want)) <= 1e-9 * max(tot, float(total2)) + 1e-300):
            fail('after the frequencies of a used filter were re-assigned (shifted by 1/1.25), R[%d] = %r but the exact integral of '
                 'the current curve over that bin is %r' % (i, got, float(want)), 'c06:stale_after_nu_assignment')
    with must_succeed('restoring the frequencies and re-binning'):
        f.nu = nu_before
        g3 = f.rebin(np.array(snu) * u.Hz)
    if any(not (abs(float(a) - b) <= rtol * tot + 1e-300) for a, b in zip(g3.response, R)):
        fail('after the frequencies were moved and restored the rebinned response differs from the first one', 'c06:stale_after_nu_assignment')
    labels.add('nu_reassigned_on_used_filter')
    # (c) normalised filter inside the SED range returns c for a flat spectrum
    lo, hi = min(snu), max(snu)
    inside = min(fnu_ref) >= lo and max(fnu_ref) <= hi
    if inside and tot > 0:
        with must_succeed('Filter.normalize + rebin'):
            f.normalize()
            gn = f.rebin(np.array(snu) * u.Hz)
        if 'given' in locals():
            with must_succeed('normalising a second filter built from the same response array'):
                twin.normalize()
                gn2 = f.rebin(np.array(snu) * u.Hz)
            if any(not (abs(float(a) - float(b)) <= 1e-12 * abs(float(b)) + 1e-300) for a, b in zip(gn2.response, gn.response)):
                fail('after a second filter built from the same response array was normalised, the first filter re-bins '
                     'differently (sum %r, was %r)' % (float(np.sum(gn2.response)), float(np.sum(gn.response))),
                     'c06:filters_share_state')
            labels.add('two_filters_from_one_array')
        cflat = 3.25
        val = float(np.sum(cflat * gn.response))
        if not (abs(val - cflat) <= 1e-9 * cflat):
            fail('normalised filter inside the SED range: flat spectrum F_nu=%r convolves to %r' % (cflat, val),
                 'c06:flat_spectrum')
        labels.add('filter_inside_sed')
    # classification
    fl, fh = min(fnu_ref), max(fnu_ref)
    if fh <= lo or fl >= hi:
        labels.add('disjoint_or_touching')
    elif fl <= lo and fh >= hi:
        labels.add('sed_inside_filter')
    elif not inside:
        labels.add('partial_overlap')
    edges = set()
    s_sorted = sorted(snu)
    for i in range(len(s_sorted) - 1):
        edges.add((Fr(s_sorted[i]) + Fr(s_sorted[i + 1])) / 2)
    nodes = [Fr(v) for v in sorted(fnu_ref)]
    if any(n in edges for n in nodes[1:-1]):
        labels.add('edge_on_interior_node')
    if nodes[-1] in edges or nodes[-1] == Fr(hi):
        labels.add('edge_on_last_node')
    if nodes[0] in edges or nodes[0] == Fr(lo):
        labels.add('edge_on_first_node')
    if resp[0] != 0. or resp[-1] != 0.:
        labels.add('nonzero_edge_response')
    olo, ohi = max(fl, lo), min(fh, hi)
    nbins = sum(1 for r in ref if r > 0)
    interior = sum(1 for n in nodes[1:-1] if olo < n < ohi)
    return labels, nbins >= 2 and interior >= 1


# ------------------------------------------------------------------------------------------ end to end

@st.composite
def e2e_case(draw):
    pkg = draw(convpkg.abstract_packages(max_models=4, max_ap=3, min_wav=3, max_wav=12))
    filters = draw(convpkg.filters_for(pkg['wav'], 1, 3))
    fmt = draw(st.sampled_from(['v1', 'v2']))
    n = len(pkg['names'])
    if fmt == 'v1' and n >= 2 and draw(st.booleans()):
        pkg = draw(convpkg.with_model_grids(pkg))
    return {'pkg': pkg, 'filters': filters, 'format': fmt,
            'memmap': draw(st.booleans()), 'a': draw(st.sampled_from([2., 0.5, 3.75])), 'b': draw(st.sampled_from([1., 0.25, 7.]))}


def convolve(pkg, filters, fmt, d, memmap):
    from sedfitter.convolve import convolve_model_dir
    convpkg.emit(pkg, d, fmt)
    with must_succeed('convolve_model_dir (%s format)' % ('per-file' if fmt == 'v1' else 'cube')), quiet():
        convolve_model_dir(d, [convpkg.filter_object(f) for f in filters], memmap=memmap)
    out = {}
    for f in filters:
        path = os.path.join(d, 'convolved', f['name'] + '.fits')
        if not os.path.exists(path):
            fail('convolve_model_dir did not write convolved/%s.fits' % f['name'], 'c06:missing_output')
        out[f['name']] = pkgio.read_convolved(path)
    return out


def stored(pkg, fmt):
    """the package with the values a float32 cube can hold"""
    if fmt == 'v2' and pkg['cube_dtype'] == 'f4':
        q = dict(pkg)
        c = convpkg.CUBE_UNITS[pkg.get('cube_unit', 'mJy')][0]
        q['flux'] = [[[float(np.float32(v * c)) / c for v in row] for row in mod] for mod in pkg['flux']]
        uu = pkg.get('cube_unc_unit', 'same')
        cu = c if uu == 'same' else convpkg.CUBE_UNITS[uu][0]
        q['err'] = [[[float(np.float32(v * cu)) / cu for v in row] for row in mod] for mod in pkg['err']]
        return q
    return pkg


def run_e2e(case, ctx):
    pkg, filters, fmt = case['pkg'], case['filters'], case['format']
    labels = {'format_' + fmt, 'storage_' + pkg['storage'], 'n_ap=%d' % (1 if pkg['apertures'] is None else len(pkg['apertures'])),
              'stored_unit_' + (pkg.get('sed_unit', 'mJy') if fmt == 'v1' else pkg.get('cube_unit', 'mJy')).replace(' ', '_')}
    f32 = fmt == 'v2' and pkg['cube_dtype'] == 'f4'
    if f32:
        labels.add('float32_cube')
    rtol = 1e-5 if f32 else 1e-10
    spkg = stored(pkg, fmt)
    nontrivial = False
    with ctx.tempdir() as d1, ctx.tempdir() as d2:
        res = convolve(pkg, filters, fmt, d1, case['memmap'])
        # linear combination a*F + b*G with G = F reversed over models (a different SED set on the same grid)
        a, b = case['a'], case['b']
        n = len(pkg['names'])
        comb = dict(pkg)
        linear = not pkg.get('wav_by_model')
        if linear:
            comb['flux'] = [[[a * pkg['flux'][m][ap][w] + b * pkg['flux'][n - 1 - m][ap][w] for w in range(len(pkg['wav']))]
                             for ap in range(len(pkg['flux'][m]))] for m in range(n)]
            res_c = convolve(comb, filters, fmt, d2, case['memmap'])
        order = convpkg.table_order(pkg, fmt)
        for f in filters:
            ref_flux, ref_err = convpkg.reference_convolved(spkg, f)
            got = res[f['name']]
            if got['names'] != order:
                fail('convolved/%s.fits rows are %r, expected %r' % (f['name'], got['names'], order), 'c06:row_order')
            for row, name in enumerate(got['names']):
                m = pkg['names'].index(name)
                mw = pkg['wav']
                if pkg.get('wav_by_model') and pkg['wav_by_model'][m] is not None:
                    mw = pkg['wav_by_model'][m]
                    labels.add('per_model_grids')
                nu = [om.C_UM_HZ / w for w in mw]
                R, total = om.rebin_reference(f['nu'], f['response'], nu)
                if sum(1 for r in R if r > 0) >= 2:
                    nontrivial = True
                aidx = convpkg.stored_ap_index(pkg)
                for pos in range(got['flux'].shape[1]):
                    ap = aidx[pos]     # stored position -> abstract aperture
                    scale = sum(abs(spkg['flux'][m][ap][i]) * float(R[i]) for i in range(len(R)))
                    if f.get('normalize'):
                        scale /= float(total)
                    want = ref_flux[m][ap]
                    if not (abs(got['flux'][row][pos] - want) <= rtol * scale + 1e-300):
                        fail('convolved/%s.fits: flux of %s aperture %d is %r, sum F*R = %r (%s format, SEDs stored in %s '
                             'wavelength)' % (f['name'], name, ap, got['flux'][row][pos], want,
                                              'per-file' if fmt == 'v1' else 'cube',
                                              'decreasing' if pkg['storage'] == 'desc' else 'increasing'), 'c06:convolved_flux')
                    wante = ref_err[m][ap]
                    escale = max(wante, 1e-300)
                    if not (abs(got['err'][row][pos] - wante) <= max(rtol, 1e-9) * escale * 10):
                        fail('convolved/%s.fits: error of %s aperture %d is %r, sqrt(sum (E*R)^2) = %r (%s format)' % (
                            f['name'], name, ap, got['err'][row][pos], wante, 'per-file' if fmt == 'v1' else 'cube'),
                            'c06:convolved_error')
                    if not linear:
                        continue
                    # linearity
                    m2 = n - 1 - m
                    lin = a * got['flux'][row][pos] + b * res[f['name']]['flux'][got['names'].index(pkg['names'][m2])][pos]
                    gotc = res_c[f['name']]['flux'][row][pos]
                    if not (abs(gotc - lin) <= max(rtol, 1e-9) * (abs(lin) + scale) * 10):
                        fail('convolution is not linear in the SED: conv(aF+bG)=%r, a conv(F)+b conv(G)=%r' % (gotc, lin),
                             'c06:not_linear')
    return labels, nontrivial


ENTRIES = {'rebin': run_rebin, 'e2e': run_e2e}


def plan(ctx):
    ctx.run_given('rebin', st.one_of(lattice_case(), lattice_case(), irregular_case()), ctx.scale(200, 4000))
    ctx.run_given('e2e', e2e_case(), ctx.scale(15, 300))
