"""
C02 - distance-dependent fits pick the grid optimum of correctly scaled model fluxes.

Oracle: vlib.oracle_fit.distance_grid + Ref3D (own aperture interpolation, (1kpc/d)^2 scaling, clipped exact
1-parameter optimum per distance, minimum over the grid, tie tolerant).
"""
import math

from hypothesis import strategies as st

from vlib import gen
from vlib import oracle_fit as of
from vlib.runner import fail, must_succeed, quiet

PROPERTY_ID = 'C02'
LEVEL = 'exploration'
DESIGN_REF = 'DESIGN.md section 3, C02'
RULE = ('Hypothesis generates aperture-dependent packages (1..8 tabulated apertures log-uniform in 1..1e6 AU, fluxes '
        'non-decreasing or arbitrary in aperture, 1..6 models, 1..5 filters) in the per-file format and the cube format '
        '(named or wavelength filters, apertures stored in AU/pc/cm), a log-distance step, per-filter angular apertures and '
        'a distance range of shapes single / within one step / many steps / integer ratio / beyond the largest aperture, '
        'given in kpc, pc or cm, with theta*dmin >= smallest aperture by construction. One evaluation = one package with '
        'all its fits. Non-trivial = a compared (source, model) pair on a grid with >=2 distances and >=2 apertures, or '
        'with an aperture request clamped at the largest tabulated aperture.')
RULE += (' ' + 'Also varied: the same filter listed twice with two angular apertures, mixed named / wavelength filter lists, stored units Jy / mJy, per-filter aperture tables, aperture axis stored in any order, distance ranges typed as round numbers in pc / kpc, .gz files, long model names.')
RULE += (' ' + 'A second fitter (another distance range) is kept alive next to the one examined in half of the cases.')
RULE += (' ' + 'The range of the second fitter is made by updating in place the array the first fitter was given.')
ASSUMPTIONS = [
    'when (log10 dmax - log10 dmin)/step is within 1e-9 of an integer both neighbouring grid sizes are accepted',
    'sources whose fitted points all have zero extinction coefficient are outside the domain (counted, skipped)',
    'chi^2 compared with 1e-9 relative tolerance; reported scale must be within 1e-10 of log10 of a grid distance',
]


def check_source(case, src, info, grids_refs, av_range, labels, float32):
    names = case['grid']['names']
    got_names = [str(n).strip() for n in info.model_name]
    if sorted(got_names) != sorted(names):
        fail('result does not list every model exactly once: %r vs %r' % (got_names, names), 'c02:model_set')
    compared = 0
    for i, name in enumerate(got_names):
        m = names.index(name)
        av, sc, chi2 = float(info.av[i]), float(info.sc[i]), float(info.chi2[i])
        what = 'source %s model %s' % (src['name'], name)
        problems = []
        ok = False
        for refs in grids_refs:
            ref = refs[m]
            res = check_one(ref, av, sc, chi2, what, float32)
            if res == 'skip':
                labels.add('zero_k_skipped')
                ok = True
                break
            if res is None:
                ok = True
                dists = ref.distances
                if len(dists) >= 2 and len(case['grid']['apertures']) >= 2:
                    compared += 1
                break
            problems.append(res)
        if not ok:
            fail(problems[0][1], problems[0][0])
    return compared


def check_one(ref, av, sc, chi2, what, float32):
    margin = 1e-5 if float32 else 1e-9
    if ref.at_distance(0, margin) is None:
        return 'skip'  # no fitted point with a non-zero extinction coefficient: outside the domain
    if not (av == av and sc == sc and chi2 == chi2):
        return ('c02:nan', '%s: NaN in result (av=%r sc=%r chi2=%r)' % (what, av, sc, chi2))
    if not (ref.lo - 1e-12 <= av <= ref.hi + 1e-12):
        return ('c02:infeasible', '%s: A_V %r outside [%r, %r]' % (what, av, ref.lo, ref.hi))
    logd = [math.log10(d) for d in ref.distances]
    js = [j for j, l in enumerate(logd) if abs(sc - l) <= 1e-10 * max(1., abs(l))]
    if not js:
        return ('c02:scale_not_on_grid', '%s: reported scale %r is not log10(d/kpc) of a grid distance %r' % (
            what, sc, logd))
    rows = [ref.at_distance(j, margin) for j in range(len(logd))]
    if any(r is None for r in rows):
        return 'skip'
    j = js[0]
    r = rows[j]
    slack = 0.
    if float32:
        slack = of.float32_slack(ref.bands, r['logm'], ref.k, av, 0.)
    # conditioning of the aperture interpolation (a request 1e-6 above a knot of a steep table loses 6 digits)
    slack += r.get('cond_slack', 0.)
    av_tol = r['av_tol'] if not float32 else None
    if av_tol is not None and not (abs(av - r['av']) <= av_tol + 1e-9 * abs(r['av'])):
        return ('c02:av_not_optimal', '%s: at d=%r kpc reported A_V %r, clipped least-squares optimum %r' % (
            what, ref.distances[j], av, r['av']))
    S_rep = ref.objective_at(j, av)
    if S_rep - r['S'] > 1e-9 * max(r['T'], r['S']) + 1e-12 + slack:
        return ('c02:av_not_optimal', '%s: objective %r at reported A_V %r exceeds optimum %r' % (what, S_rep, av, r['S']))
    tol = 1e-9 * (max(r['T'], S_rep) + r['sure'] + r['maybe']) + 1e-9 + slack
    if not (S_rep + r['sure'] - tol <= chi2 <= S_rep + r['sure'] + r['maybe'] + tol):
        return ('c02:chi2_bookkeeping', '%s: reported chi2 %r but at d=%r kpc objective %r + penalties %r (+%r ambiguous)' % (
            what, chi2, ref.distances[j], S_rep, r['sure'], r['maybe']))
    best = min(range(len(rows)), key=lambda i: rows[i]['S'] + rows[i]['sure'] + rows[i]['maybe'])
    rb = rows[best]
    ub = rb['S'] + rb['sure'] + rb['maybe']
    tolb = 1e-9 * (max(rb['T'], rb['S']) + rb['sure'] + rb['maybe']) + 1e-9 + slack + rb.get('cond_slack', 0.)
    if chi2 > ub + tolb + tol:
        return ('c02:not_grid_minimum', '%s: reported chi2 %r at d=%r kpc, but d=%r kpc gives %r' % (
            what, chi2, ref.distances[j], ref.distances[best], ub))
    return None


def run_case(case, ctx):
    from astropy import units as u
    labels = {'format_' + case['format'], 'shape_' + case['setup']['shape'], 'apertures_stored_' + case.get('ap_storage', 'asc')}
    float32 = bool(case.get('memmap'))
    grid = case['grid']
    names = grid['names']
    nf = len(case['filters'])
    k = of.extinction_pattern(case['law']['wav'], case['law']['chi'], [f['wav'] for f in case['filters']])
    dr = gen.distance_range_quantity(case['setup'])
    dkpc = [float(v) for v in dr.to(u.kpc).value]
    cand = of.distance_grid(dkpc[0], dkpc[1], case['setup']['step'])
    if len(cand) > 1:
        labels.add('ratio_is_integer')
    if len(cand[0]) == 1:
        labels.add('n_dist==1')
    if len(grid['apertures']) == 1:
        labels.add('single_aperture')
    if case.get('ap_count_by_filter') and case['format'] != 'v2wav':
        labels.add('per_filter_aperture_tables')
    if len(set(case['theta'])) < len(case['theta']):
        labels.add('shared_angular_apertures')
    if len(set(f['name'] for f in case['filters'])) < len(case['filters']):
        labels.add('filter_listed_twice')
    labels.add('stored_units_cube_%s_convolved_%s' % (case.get('cube_unit', 'mJy'), case.get('conv_unit', 'mJy')))
    if max(case['theta']) * dkpc[1] * 1000. > grid['apertures'][-1]:
        labels.add('beyond_largest_aperture')
    compared = 0
    with ctx.tempdir() as d:
        gen.build_package_3d(d, case)
        for av_range in case['av_ranges']:
            dr_arg = dr.copy()   # the array handed to the Fitter under examination
            with must_succeed('Fitter()'), quiet():
                fitter = gen.make_fitter(d, case, av_range, distance_range=dr_arg)
            if len(case['sources']) % 2 == 0 or case.get('memmap'):
                # a second fitter on the same package (a farther distance range) is created, used and kept alive next to
                # the one under examination: fitters do not share state. Its range is made by updating, in place, the array
                # the first one was given (the caller's own variable, re-used): a Fitter is defined by what it was given when
                # it was made
                dr_arg *= 1.37
                with must_succeed('a second Fitter() on the same package'), quiet():
                    neighbour = gen.make_fitter(d, case, av_range, distance_range=dr_arg)
                    neighbour.fit(gen.source_object(case['sources'][0]))
                labels.add('second_fitter_alive')
            # the grid itself, when the public attribute exists
            dist_attr = getattr(getattr(fitter, 'models', None), 'distances', None)
            if dist_attr is not None:
                got = [float(v) for v in dist_attr.to(u.kpc).value]
                if not any(len(got) == len(g) and all(abs(a - b) <= 1e-12 * b for a, b in zip(got, g)) for g in cand):
                    fail('distance grid %r is not the log-uniform grid with both ends and the fewest points of spacing '
                         '<= %r: expected %r' % (got, case['setup']['step'], cand[0]), 'c02:grid')
            for src in case['sources']:
                bands = of.transform_source(src['flags'], src['flux'], src['err'])
                refs_per_grid = []
                for g in cand:
                    refs_per_grid.append([of.Ref3D(bands, gen.tables_3d(case, m)[0], gen.tables_3d(case, m)[1], case['theta'], k,
                                                   av_range[0], av_range[1], g) for m in range(len(names))])
                so = gen.source_object(src)
                with must_succeed('Fitter.fit'), quiet():
                    info = fitter.fit(so)
                compared += check_source(case, src, info, refs_per_grid, av_range, labels, float32)
                if {2, 3} & set(src['flags']):
                    labels.add('has_limits')
            del fitter
    nontrivial = compared > 0 or 'beyond_largest_aperture' in labels
    return labels, nontrivial


@st.composite
def cases(draw, thorough=False):
    return draw(gen.fit_case_3d(max_models=10 if thorough else 6, max_filters=6 if thorough else 5, repeat_filter=True))


def run_large(case, ctx):
    """A grid as large as real ones (n_models x n_distances x n_filters of several million elements): the quantifier sets no
    bound on the number of models or distances, and implementations tend to process such grids in blocks.  Vectorised
    float64 reference (the exact-rational one would take minutes), compared at 1e-8."""
    import os
    import numpy as np
    from astropy import units as u
    from vlib import pkgio
    nm, nf = case['n_models'], 3
    aps = [50., 400., 3000., 20000.]
    theta = case['theta']
    names = ['L%05d' % i for i in range(nm)]
    idx = np.arange(nm)
    law = {'wav': [0.05, 0.55, 3., 30., 300.], 'chi': [9., 1., 0.3, 0.05, 0.004]}
    filt = [{'name': 'A', 'wav': 1.2}, {'name': 'B', 'wav': 4.5}, {'name': 'C', 'wav': 24.}]
    k = np.array(of.extinction_pattern(law['wav'], law['chi'], [f['wav'] for f in filt]))
    flux = np.empty((nf, nm, len(aps)))
    for j in range(nf):
        for a in range(len(aps)):
            flux[j, :, a] = (1. + 0.4 * a) * (2. + np.sin(0.37 * idx + j) + 0.3 * np.cos(0.011 * idx * (a + 1))) * 10. ** (0.5 * j)
    dmin, dmax, step = case['dmin'], case['dmax'], case['step']
    with ctx.tempdir() as d:
        pkgio.write_conf(d, True, step)
        pkgio.write_parameters(d, names, {'p': [float(i) for i in range(nm)]})
        for j in range(nf):
            pkgio.write_convolved(d, filt[j]['name'], names, filt[j]['wav'], aps, flux[j], 0.1 * flux[j])
        sc = {'law': law, 'filters': filt, 'grid': {'names': names}, 'format': 'v1', 'theta': theta, 'memmap': False}
        with must_succeed('Fitter() on a large grid'), quiet():
            fitter = gen.make_fitter(d, sc, case['av_range'], distance_range=[dmin, dmax] * u.kpc)
        grid = of.distance_grid(dmin, dmax, step)[0]
        dist = np.array(grid)
        nd = len(dist)
        logm = np.empty((nm, nd, nf))
        for j in range(nf):
            ap = np.minimum(theta[j] * dist * 1000., aps[-1])
            for m in range(nm):
                logm[m, :, j] = np.log10(np.interp(ap, aps, flux[j, m]) / dist ** 2)
        src = {'name': 'big', 'x': 0., 'y': 0., 'flags': [1, 1, 1], 'flux': case['src_flux'],
               'err': [f * r for f, r in zip(case['src_flux'], case['src_rel'])]}
        bands = of.transform_source(src['flags'], src['flux'], src['err'])
        y = np.array([b[1] for b in bands])
        w = np.array([b[2] for b in bands])
        with must_succeed('Fitter.fit on a large grid'), quiet():
            info = fitter.fit(gen.source_object(src))
        r = y[None, None, :] - logm
        av = np.clip(np.sum(w * r * k, axis=2) / np.sum(w * k * k), case['av_range'][0], case['av_range'][1])
        chi = np.sum(w * (r - av[:, :, None] * k) ** 2, axis=2)
        best = np.argmin(chi, axis=1)
        got = dict((str(n_).strip(), i) for i, n_ in enumerate(info.model_name))
        if len(got) != nm or len(info.chi2) != nm:
            fail('large grid: %d rows for %d models' % (len(info.chi2), nm), 'c02:model_set')
        logd = np.log10(dist)
        for m in range(nm):
            i = got.get(names[m])
            if i is None:
                fail('large grid: model %s missing from the result' % names[m], 'c02:model_set')
            c_ref = chi[m, best[m]]
            if not (abs(float(info.chi2[i]) - c_ref) <= 1e-8 * max(c_ref, 1.)):
                fail('large grid (%d models x %d distances x %d filters): model %s reports chi2 %r (A_V %r, scale %r), the '
                     'minimum over the distance grid is %r at d=%r kpc' % (nm, nd, nf, names[m], float(info.chi2[i]),
                                                                           float(info.av[i]), float(info.sc[i]), c_ref,
                                                                           dist[best[m]]), 'c02:not_grid_minimum')
            if not (abs(float(info.sc[i]) - logd[best[m]]) <= 1e-9):
                second = np.partition(chi[m], 1)[1] if nd > 1 else np.inf
                if second - c_ref > 1e-7 * max(c_ref, 1.):
                    fail('large grid: model %s reports scale %r, the grid minimum is at log d = %r' % (
                        names[m], float(info.sc[i]), logd[best[m]]), 'c02:scale_not_on_grid')
            elif not (abs(float(info.av[i]) - av[m, best[m]]) <= 1e-7 * (1 + abs(av[m, best[m]]))):
                fail('large grid: model %s reports A_V %r, optimum %r' % (names[m], float(info.av[i]), av[m, best[m]]),
                     'c02:av_not_optimal')
        del fitter
    return {'large_grid', 'elements=%.1fM' % (nm * nd * nf / 1e6)}, True


@st.composite
def large_cases(draw, thorough=False):
    step = draw(st.sampled_from([0.002, 0.003]))
    span = draw(st.sampled_from([1.0, 1.2]))
    ndist = int(1 + span / step) + 1
    target = draw(st.sampled_from([4.6e6, 6.0e6] if not thorough else [4.6e6, 9e6, 1.7e7]))
    nm = int(target / (3 * ndist)) + draw(st.integers(1, 40))
    return {'n_models': nm, 'step': step, 'dmin': 0.5, 'dmax': 0.5 * 10. ** span,
            'theta': [draw(st.sampled_from([2., 5., 12.])) for _ in range(3)],
            'av_range': draw(st.sampled_from([[0., 30.], [0., 2.]])),
            'src_flux': [draw(gen.logfloat(0.1, 30.)) for _ in range(3)],
            'src_rel': [draw(gen.logfloat(0.02, 0.3)) for _ in range(3)]}


ENTRIES = {'fit3d': run_case, 'large': run_large}


def plan(ctx):
    ctx.run_given('fit3d', cases(thorough=not ctx.quick), ctx.scale(60, 1200))
    if ctx.shard < ctx.scale(1, 4):
        # a few hundred MB of work arrays: only on one (thorough: four) of the shards
        ctx.run_given('large', large_cases(thorough=not ctx.quick), ctx.scale(2, 3), shrink=False)
