"""
C12 - SED, cube and convolved-flux files read back exactly what was stored.

Round trips through the library's own writers and readers for every configuration of the quantifier, plus a cross
read of the written files with the independent reader of vlib/pkgio.py (catches symmetric writer+reader mistakes),
plus files written by the independent writer read by the library.
"""
import os

import numpy as np
from hypothesis import strategies as st

from vlib import gen, pkgio
from vlib import oracle_misc as om
from vlib.runner import fail, must_succeed, quiet

PROPERTY_ID = 'C12'
LEVEL = 'exploration'
DESIGN_REF = 'DESIGN.md section 3, C12'
RULE = ('Hypothesis generates arrays with a distinct value in every (model, aperture, wavelength) cell: 1..6 models, 1..5 '
        'apertures (or none), 2..40 wavelengths supplied in increasing or decreasing wavelength, flux unit among mJy / Jy / '
        'erg/cm^2/s / erg/s, uncertainties present or absent where the class allows, read order nu / wav, memmap on/off. '
        'Entries: sed (SED.write/read), cube (SEDCube.write/read/get_sed), conv (ConvolvedFluxes.write/read), foreign '
        '(files written by the independent writer, incl. the legacy unit strings, read by the library). Non-trivial = >= 3 '
        'wavelengths with a non-palindromic spectrum; distinct = distinct canonical JSON.')
RULE += (' ' + 'Also varied: an older compressed copy <name>.gz next to the SED file being written, error units, second cube with permuted names.')
RULE += (' ' + 'Aperture axis stored ascending / descending / rotated, cells compared by aperture value.')
RULE += (' ' + 'A quarter of the cubes hold names longer than 30 characters, several sharing their first 30.')
RULE += (' ' + 'The cube read back from the file is written out again and the second file examined like the first.')
RULE += (' ' + 'The SED object is written a second time and the second file examined like the first.')
ASSUMPTIONS = [
    'values are requested in the unit they were stored in; equality within 1e-13 relative (unit algebra rounds), exact '
    'for convolved-flux tables',
    'an SED without apertures reads back as a single-aperture SED; nothing is claimed about the placeholder aperture',
]

UNITS = ['mJy', 'Jy', 'erg/cm2/s', 'erg/s']


def unit_of(name):
    from astropy import units as u
    return {'mJy': u.mJy, 'Jy': u.Jy, 'erg/cm2/s': u.erg / u.cm ** 2 / u.s, 'erg/s': u.erg / u.s,
            'W/m2': u.W / u.m ** 2}[name]


@st.composite
def arrays(draw, max_models=6, need_models=True):
    nm = draw(st.integers(1, max_models)) if need_models else 1
    nap = draw(st.integers(1, 5))
    nw = draw(st.one_of(st.integers(2, 6), st.integers(2, 40)))
    wav = draw(gen.increasing(nw, 0.05, 2000., 1.01))
    base = draw(gen.logfloat(1e-6, 1e6))
    val = [[[base * (1. + 0.5 * m + 0.07 * a + 0.003 * w + 0.0001 * ((3 * m + 5 * a + 7 * w) % 11)) for w in range(nw)]
            for a in range(nap)] for m in range(nm)]
    unc = [[[0.1 * v * (1. + 0.01 * ((m + a + w) % 5)) for w, v in enumerate(row)] for a, row in enumerate(mod)]
           for m, mod in enumerate(val)]
    return {'names': ['model_%d' % (i * 7 % 10) + 'x' * (i % 3) + str(i) for i in range(nm)], 'wav': wav,
            'apertures': draw(gen.increasing(nap, 5., 1e6, 1.1)), 'val': val, 'unc': unc,
            'supplied': draw(st.sampled_from(['asc', 'desc'])), 'unit': draw(st.sampled_from(UNITS)),
            'with_ap': draw(st.booleans()) or nap > 1, 'with_unc': draw(st.booleans()),
            'order': draw(st.sampled_from(['nu', 'wav'])), 'memmap': draw(st.booleans()),
            'distance_kpc': draw(st.sampled_from([1., 1., 0.14, 8.5])), 'ap_unit': draw(st.sampled_from(['au', 'au', 'pc', 'cm'])),
            'err_other_unit': draw(st.booleans()),
            # cube entry: descriptive names longer than the 30 characters of a convolved-flux column, several of which share
            # their first 30 characters
            'long_names': draw(st.integers(0, 3)) == 0,
            # what else is in the directory the file is written to: nothing, or an older compressed copy <name>.gz
            'gz_sibling': draw(st.integers(0, 3)) == 0,
            'ap_store': draw(st.sampled_from(['asc', 'asc', 'desc', 'rot']))}


def err_unit_of(case):
    """errors may be given in another unit of the same family than the values (mJy <-> Jy, erg/cm2/s <-> W/m2)"""
    from astropy import units as u
    if not case.get('err_other_unit'):
        return unit_of(case['unit'])
    return {'mJy': u.Jy, 'Jy': u.mJy, 'erg/cm2/s': u.W / u.m ** 2, 'erg/s': u.W}[case['unit']]


def ap_quantity(case, nap):
    from astropy import units as u
    aps = np.array(case['apertures'][:nap]) * u.au
    return aps if case['ap_unit'] == 'au' else aps.to({'pc': u.pc, 'cm': u.cm}[case['ap_unit']])


def stored_view(case):
    """The case with its aperture axis in the order in which it is STORED in the objects that are written (ascending,
    descending or rotated): nothing promises that apertures are tabulated in increasing order."""
    how = case.get('ap_store', 'asc')
    nap = len(case['val'][0])
    if how == 'asc' or nap < 2 or not case['with_ap']:
        return case
    perm = list(range(nap))[::-1] if how == 'desc' else list(range(1, nap)) + [0]
    c = dict(case)
    c['apertures'] = [case['apertures'][a] for a in perm] + list(case['apertures'][nap:])
    c['val'] = [[mod[a] for a in perm] for mod in case['val']]
    c['unc'] = [[mod[a] for a in perm] for mod in case['unc']]
    return c


def ap_positions(got_au, stored_au, what, sig):
    """position in the apertures READ BACK of every stored aperture (cells are compared by aperture value, so a reader that
    normalises the order of the axis is not at fault - one that mixes up the cells is)"""
    pos = []
    for w in stored_au:
        hits = [j for j, g in enumerate(got_au) if close(g, w, 1e-12)]
        if len(hits) != 1:
            fail('%s: apertures %r read back, %r stored' % (what, list(got_au), list(stored_au)), sig)
        pos.append(hits[0])
    if len(got_au) != len(stored_au):
        fail('%s: apertures %r read back, %r stored' % (what, list(got_au), list(stored_au)), sig)
    return pos


def close(a, b, rel=1e-13):
    return abs(a - b) <= rel * max(abs(a), abs(b))


def expect_axis(case, order):
    """indices into the ascending-wavelength arrays in the order the reader must return them"""
    n = len(case['wav'])
    idx = list(range(n))
    return idx if order == 'wav' else idx[::-1]


def check_spectral(obj, case, order, what, flux_attr, err_attr, model=None, sig='c12'):
    from astropy import units as u
    idx = expect_axis(case, order)
    wav = obj.wav.to(u.micron).value
    nu = obj.nu.to(u.Hz).value
    if len(wav) != len(idx):
        fail('%s: %d wavelengths read, %d written' % (what, len(wav), len(idx)), sig + ':axis_length')
    for p, i in enumerate(idx):
        if not close(wav[p], case['wav'][i], 1e-12) or not close(nu[p], om.C_UM_HZ / case['wav'][i], 1e-12):
            fail('%s (order=%s): position %d has wavelength %r / frequency %r, expected wavelength %r' % (
                what, order, p, wav[p], nu[p], case['wav'][i]), sig + ':spectral_axis')
    return idx


def supplied_order(case):
    n = len(case['wav'])
    return list(range(n)) if case['supplied'] == 'asc' else list(range(n))[::-1]


# ------------------------------------------------------------------------------------------ SED

def run_sed(case, ctx):
    from astropy import units as u
    from sedfitter.sed import SED
    un = unit_of(case['unit'])
    sidx = supplied_order(case)
    case = stored_view(case)
    nap = len(case['val'][0]) if case['with_ap'] else 1
    labels = {'unit_' + case['unit'], 'supplied_' + case['supplied'], 'read_' + case['order'],
              'with_ap' if case['with_ap'] else 'no_ap', 'apertures_stored_' + case.get('ap_store', 'asc')}
    s = SED()
    with must_succeed('building an SED'):
        s.name = case['names'][0]
        s.distance = case['distance_kpc'] * u.kpc
        s.wav = np.array([case['wav'][i] for i in sidx]) * u.micron
        s.nu = s.wav.to(u.Hz, equivalencies=u.spectral())
        if case['with_ap']:
            aps = np.array(case['apertures'][:nap]) * u.au
            s.apertures = aps if case['ap_unit'] == 'au' else aps.to({'pc': u.pc, 'cm': u.cm}[case['ap_unit']])
        s.flux = np.array([[case['val'][0][a][i] for i in sidx] for a in range(nap)]) * un
        s.error = (np.array([[case['unc'][0][a][i] for i in sidx] for a in range(nap)]) * un).to(err_unit_of(case))
    with ctx.tempdir() as d:
        path = os.path.join(d, 'one_sed.fits')
        if case.get('gz_sibling'):
            # an older, compressed version of the model sits next to the file that is about to be written
            w0 = [case['wav'][i] for i in sidx]
            pkgio.write_sed_file(path + '.gz', 'older', w0, pkgio.wav_to_nu(w0), case['apertures'][:nap] if case['with_ap'] else None,
                                 [[3.3 * case['val'][0][a][i] + 1. for i in sidx] for a in range(nap)],
                                 [[0.5 * case['unc'][0][a][i] + 1. for i in sidx] for a in range(nap)], distance_cm=3.0856775814913674e21)
            labels.add('older_gz_copy_next_to_the_file')
        with must_succeed('SED.write'):
            s.write(path)

        def examine_sed(path, gen_):
            # reads the file in both spectral orders and compares every cell with what was supplied
            for order in (case['order'], 'wav' if case['order'] == 'nu' else 'nu'):
                with must_succeed('SED.read(unit_flux=%s, order=%s)' % (case['unit'], order)):
                    r = SED.read(path, unit_flux=un, order=order)
                what = gen_ + 'SED supplied in %s wavelength, unit %s' % ('increasing' if case['supplied'] == 'asc' else 'decreasing', case['unit'])
                idx = check_spectral(r, case, order, what, 'flux', 'error')
                if r.name != s.name or not close(r.distance.to(u.cm).value, s.distance.to(u.cm).value):
                    fail('%s: name / distance changed (%r, %r)' % (what, r.name, r.distance), 'c12:sed_meta')
                if r.flux.shape != (nap, len(idx)) or r.error.shape != (nap, len(idx)):
                    fail('%s: flux shape %r' % (what, r.flux.shape), 'c12:sed_shape')
                fv, ev = np.asarray(r.flux.to(un).value), np.asarray(r.error.to(un).value)
                if case['with_ap']:
                    pos = ap_positions(r.apertures.to(u.au).value, case['apertures'][:nap], what, 'c12:sed_apertures')
                    fv, ev = fv[pos, :], ev[pos, :]
                for a in range(nap):
                    for p, i in enumerate(idx):
                        if not close(fv[a][p], case['val'][0][a][i]):
                            fail('%s, read with order=%s: flux at %r micron (aperture %d) is %r, stored %r' % (
                                what, order, case['wav'][i], a, fv[a][p], case['val'][0][a][i]), 'c12:sed_flux_at_wrong_wavelength')
                        if not close(ev[a][p], case['unc'][0][a][i]):
                            fail('%s, read with order=%s: error at %r micron (aperture %d) is %r, stored %r' % (
                                what, order, case['wav'][i], a, ev[a][p], case['unc'][0][a][i]), 'c12:sed_error_at_wrong_wavelength')
        examine_sed(path, '')
        # the object that was written is used again: written a second time (a corrected header, another directory), the
        # second file says the same as the first
        path2 = os.path.join(d, 'again_sed.fits')
        with must_succeed('SED.write of the same object a second time'):
            s.write(path2)
        examine_sed(path2, 'second file written from the same object: ')
        labels.add('sed_object_written_twice')
        # requesting the other order ONLY reverses the spectral axis - also when a flux unit of another family is
        # requested (the default unit_flux of SED.read is erg/cm^2/s whatever the file holds)
        others = [x for x in UNITS if x != case['unit']]
        other = others[(len(case['wav']) + nap) % len(others)]
        with must_succeed('SED.read(unit_flux=%s) in both orders' % other):
            rn = SED.read(path, unit_flux=unit_of(other), order='nu')
            rw = SED.read(path, unit_flux=unit_of(other), order='wav')
        for key in ('wav', 'nu', 'flux', 'error'):
            a = np.asarray(getattr(rn, key).value)
            b = np.asarray(getattr(rw, key).value)[..., ::-1]
            if a.shape != b.shape or np.any(np.abs(a - b) > 1e-13 * np.abs(a)):
                fail('SED stored in %s and read in %s: order=wav is not the reverse of order=nu for %s (e.g. %r vs %r)' % (
                    case['unit'], other, key, a.ravel()[:2].tolist(), b.ravel()[:2].tolist()), 'c12:order_changes_values')
        labels.add('cross_unit_' + other)
        # the file itself, by the independent reader: cell i belongs to stored wavelength i
        f = pkgio.read_sed_file(path)
        for p in range(len(f['wav'])):
            i = min(range(len(case['wav'])), key=lambda q: abs(case['wav'][q] - f['wav'][p]))
            if not close(f['nu'][p], om.C_UM_HZ / f['wav'][p], 1e-12):
                fail('written SED file: wavelength %r stored next to frequency %r' % (f['wav'][p], f['nu'][p]), 'c12:sed_file_axes')
            for a in range(nap):
                if not close(f['flux'][a][p], case['val'][0][a][i]):
                    fail('written SED file (SED supplied in %s wavelength): the cell stored next to %r micron holds %r, '
                         'the flux supplied at that wavelength is %r' % (
                             'increasing' if case['supplied'] == 'asc' else 'decreasing', f['wav'][p], f['flux'][a][p],
                             case['val'][0][a][i]), 'c12:sed_file_mislabelled')
    nw = len(case['wav'])
    return labels, nw >= 3


# ------------------------------------------------------------------------------------------ cube

def r_order(case):
    return 'wav' if case['order'] == 'nu' else 'nu'


def run_cube(case, ctx):
    from astropy import units as u
    from sedfitter.sed import SEDCube, SED
    un = unit_of(case['unit'])
    sidx = supplied_order(case)
    nm = len(case['names'])
    case = stored_view(case)
    nap = len(case['val'][0]) if case['with_ap'] else 1
    labels = {'unit_' + case['unit'], 'supplied_' + case['supplied'], 'read_' + case['order'],
              'with_ap' if case['with_ap'] else 'no_ap', 'with_unc' if case['with_unc'] else 'no_unc',
              'memmap' if case['memmap'] else 'no_memmap', 'apertures_stored_' + case.get('ap_store', 'asc')}
    if case.get('long_names'):
        case = dict(case, names=gen.long_names(case['names']))
        labels.add('names_longer_than_30_characters')
    c = SEDCube()
    with must_succeed('building an SEDCube'):
        c.names = np.array(case['names'])
        c.distance = case['distance_kpc'] * u.kpc
        c.wav = np.array([case['wav'][i] for i in sidx]) * u.micron
        if case['with_ap']:
            c.apertures = ap_quantity(case, nap)
        c.val = np.array([[[case['val'][m][a][i] for i in sidx] for a in range(nap)] for m in range(nm)]) * un
        if case['with_unc']:
            c.unc = (np.array([[[case['unc'][m][a][i] for i in sidx] for a in range(nap)] for m in range(nm)]) * un).to(err_unit_of(case))
    with ctx.tempdir() as d:
        path = os.path.join(d, 'flux.fits')
        with must_succeed('SEDCube.write'):
            c.write(path)
        what = 'cube supplied in %s wavelength, unit %s' % ('increasing' if case['supplied'] == 'asc' else 'decreasing', case['unit'])
        def examine(path, what):
            # reads the file in both spectral orders and compares every cell, and one extracted model, with what was supplied
            for order in (case['order'], 'wav' if case['order'] == 'nu' else 'nu'):
                with must_succeed('SEDCube.read(order=%s, memmap=%r)%s' % (order, case['memmap'], '' if case['with_unc'] else ' without uncertainties')):
                    r = SEDCube.read(path, order=order, memmap=case['memmap'])
                idx = check_spectral(r, case, order, what, 'val', 'unc')
                if [str(x) for x in r.names] != case['names']:
                    fail('%s: names %r' % (what, list(r.names)), 'c12:cube_names')
                if r.val.shape != (nm, nap, len(idx)):
                    fail('%s: val shape %r, expected %r' % (what, r.val.shape, (nm, nap, len(idx))), 'c12:cube_shape')
                vv = np.asarray(r.val.to(un).value)
                uu = None if r.unc is None else np.asarray(r.unc.to(un).value)
                if case['with_unc'] != (uu is not None):
                    fail('%s: uncertainties %s' % (what, 'invented' if uu is not None else 'lost'), 'c12:cube_unc_presence')
                if case['with_ap']:
                    pos = ap_positions(r.apertures.to(u.au).value, case['apertures'][:nap], what, 'c12:cube_apertures')
                    vv = vv[:, pos, :]
                    uu = None if uu is None else uu[:, pos, :]
                elif r.apertures is not None:
                    fail('%s: apertures appeared: %r' % (what, r.apertures), 'c12:cube_apertures')
                for m in range(nm):
                    for a in range(nap):
                        for p, i in enumerate(idx):
                            if not close(vv[m][a][p], case['val'][m][a][i]):
                                fail('%s, read with order=%s: value of %s, aperture %d at %r micron is %r, stored %r' % (
                                    what, order, case['names'][m], a, case['wav'][i], vv[m][a][p], case['val'][m][a][i]),
                                    'c12:cube_value_in_wrong_cell')
                            if uu is not None and not close(uu[m][a][p], case['unc'][m][a][i]):
                                fail('%s, read with order=%s: uncertainty of %s, aperture %d at %r micron is %r, stored %r' % (
                                    what, order, case['names'][m], a, case['wav'][i], uu[m][a][p], case['unc'][m][a][i]),
                                    'c12:cube_unc_in_wrong_cell')
                # extracting one model gives the SED that was put in
                m = (len(case['wav']) + nap) % nm
                with must_succeed('SEDCube.get_sed%s' % ('' if case['with_unc'] else ' without uncertainties')):
                    s = r.get_sed(case['names'][m])
                if s.name != case['names'][m]:
                    fail('get_sed(%r) returned %r' % (case['names'][m], s.name), 'c12:get_sed')
                sf = np.asarray(s.flux.to(un).value)
                sw = s.wav.to(u.micron).value
                for a in range(nap):
                    for p, i in enumerate(idx):
                        if not close(sw[p], case['wav'][i], 1e-12) or not close(sf[a][p], case['val'][m][a][i]):
                            fail('%s: get_sed(%s) has %r at %r micron (aperture %d), the model put in has %r at %r' % (
                                what, case['names'][m], sf[a][p], sw[p], a, case['val'][m][a][i], case['wav'][i]), 'c12:get_sed')
                if case['with_unc']:
                    se = np.asarray(s.error.to(un).value)
                    if any(not close(se[a][p], case['unc'][m][a][i]) for a in range(nap) for p, i in enumerate(idx)):
                        fail('%s: get_sed(%s) errors differ from the model put in' % (what, case['names'][m]), 'c12:get_sed')
            return r
        r = examine(path, what)
        # second generation: the cube that was read from the file is written out again (a package copied or re-saved) and
        # the new file is examined in the same way
        path2 = os.path.join(d, 'flux_again.fits')
        with must_succeed('SEDCube.write of a cube that was read from a file (order=%s, memmap=%r)' % (r_order(case), case['memmap'])):
            r.write(path2)
        r2 = examine(path2, what + ', read and written again')
        labels.add('cube_written_again_after_reading')
        # a second cube in the same process holding the same model names at other positions: extraction is by NAME
        if nm >= 2:
            perm = list(range(nm))[::-1] if nm % 2 else list(range(1, nm)) + [0]
            c2 = SEDCube()
            with must_succeed('building a second SEDCube'):
                c2.names = np.array([case['names'][i] for i in perm])
                c2.distance = case['distance_kpc'] * u.kpc
                c2.wav = np.array(case['wav']) * u.micron
                if case['with_ap']:
                    c2.apertures = ap_quantity(case, nap)
                c2.val = np.array([[[case['val'][i][a][w] for w in range(len(case['wav']))] for a in range(nap)] for i in perm]) * un
                c2.unc = np.array([[[case['unc'][i][a][w] for w in range(len(case['wav']))] for a in range(nap)] for i in perm]) * un
            for cube, what2 in ((r, 'the cube read back'), (c2, 'a second cube with the models in another order'), (r, 'the first cube again')):
                for m in range(nm):
                    with must_succeed('SEDCube.get_sed'):
                        sx = cube.get_sed(case['names'][m])
                    sf = np.asarray(sx.flux.to(un).value)
                    sw = list(sx.wav.to(u.micron).value)
                    for a in range(nap):
                        for i, w in enumerate(case['wav']):
                            p_ = min(range(len(sw)), key=lambda q: abs(sw[q] - w))
                            if not close(sf[a][p_], case['val'][m][a][i]):
                                fail('get_sed(%r) on %s returns %r at %r micron (aperture %d); that model has %r there' % (
                                    case['names'][m], what2, sf[a][p_], w, a, case['val'][m][a][i]), 'c12:get_sed_wrong_model')
            labels.add('two_cubes_same_names')
        # independent reader
        f = pkgio.read_cube(path)
        for p in range(len(f['wav'])):
            i = min(range(len(case['wav'])), key=lambda q: abs(case['wav'][q] - f['wav'][p]))
            for m in range(nm):
                for a in range(nap):
                    if not close(f['val'][m][a][p], case['val'][m][a][i]):
                        fail('written cube file: the cell stored next to %r micron holds %r, supplied there: %r' % (
                            f['wav'][p], f['val'][m][a][p], case['val'][m][a][i]), 'c12:cube_file_mislabelled')
    return labels, len(case['wav']) >= 3


# ------------------------------------------------------------------------------------------ convolved fluxes

def run_conv(case, ctx):
    from astropy import units as u
    from sedfitter.convolved_fluxes import ConvolvedFluxes
    un = unit_of(case['unit'])
    nm = len(case['names'])
    case = stored_view(case)
    nap = len(case['val'][0]) if case['with_ap'] else 1
    labels = {'unit_' + case['unit'], 'with_ap' if case['with_ap'] else 'no_ap', 'apertures_stored_' + case.get('ap_store', 'asc')}
    cf = ConvolvedFluxes()
    with must_succeed('building ConvolvedFluxes'):
        cf.model_names = np.array(case['names'])
        if case['with_ap']:
            cf.apertures = ap_quantity(case, nap)
        cf.central_wavelength = case['wav'][0] * u.micron
        cf.flux = np.array([[case['val'][m][a][0] for a in range(nap)] for m in range(nm)]) * un
        cf.error = (np.array([[case['unc'][m][a][0] for a in range(nap)] for m in range(nm)]) * un).to(err_unit_of(case))
    with ctx.tempdir() as d:
        path = os.path.join(d, 'F.fits')
        with must_succeed('ConvolvedFluxes.write'):
            cf.write(path)
        with must_succeed('ConvolvedFluxes.read (unit %s)' % case['unit']):
            r = ConvolvedFluxes.read(path)
        if [str(x).strip() for x in r.model_names] != case['names']:
            fail('convolved fluxes: names %r' % list(r.model_names), 'c12:conv_names')
        if not close(r.central_wavelength.to(u.micron).value, case['wav'][0], 1e-14):
            fail('convolved fluxes: wavelength %r' % r.central_wavelength, 'c12:conv_wavelength')
        pos = list(range(nap))
        if case['with_ap']:
            pos = ap_positions(r.apertures.to(u.au).value, case['apertures'][:nap], 'convolved fluxes', 'c12:conv_apertures')
        elif r.apertures is not None:
            fail('convolved fluxes: apertures appeared', 'c12:conv_apertures')
        fv, ev = np.asarray(r.flux.to(un).value), np.asarray(r.error.to(un).value)
        if fv.shape != (nm, nap) or ev.shape != (nm, nap):
            fail('convolved fluxes: shape %r' % (fv.shape,), 'c12:conv_shape')
        fv, ev = fv[:, pos], ev[:, pos]
        for m in range(nm):
            for a in range(nap):
                if not close(fv[m][a], case['val'][m][a][0], 1e-15) or not close(ev[m][a], case['unc'][m][a][0], 1e-13):
                    fail('convolved fluxes: (%s, aperture %d) reads %r +- %r, stored %r +- %r' % (
                        case['names'][m], a, fv[m][a], ev[m][a], case['val'][m][a][0], case['unc'][m][a][0]), 'c12:conv_cell')
        t = pkgio.read_convolved(path)
        tpos = list(range(nap))
        if case['with_ap'] and t['apertures'] is not None and str(t['aperture_unit']).lower() == 'au':
            tpos = ap_positions(list(t['apertures']), case['apertures'][:nap], 'written convolved-flux file', 'c12:conv_file')
        if t['names'] != case['names'] or any(not close(t['flux'][m][tpos[a]], case['val'][m][a][0], 1e-15)
                                               for m in range(nm) for a in range(nap)):
            fail('written convolved-flux file does not hold the stored values row by row', 'c12:conv_file')
    return labels, nm >= 2


# ------------------------------------------------------------------------------------------ foreign files

def run_foreign(case, ctx):
    """files written by the independent writer (incl. legacy unit strings) read by the library"""
    from astropy import units as u
    from sedfitter.sed import SED, SEDCube
    sidx = supplied_order(case)
    nap = len(case['val'][0]) if case['with_ap'] else 1
    nm = len(case['names'])
    unit_strings = {'mJy': ['mJy', 'MJY'], 'Jy': ['Jy'], 'erg/cm2/s': ['erg cm-2 s-1', 'ergs/cm^2/s', 'erg / (cm2 s)'],
                    'erg/s': ['erg s-1', 'erg / s']}[case['unit']]
    ustr = unit_strings[len(case['wav']) % len(unit_strings)]
    un = unit_of(case['unit'])
    labels = {'unit_string_' + ustr.replace(' ', '_'), 'supplied_' + case['supplied']}
    legacy = ustr in ('MJY', 'ergs/cm^2/s')
    with ctx.tempdir() as d:
        path = os.path.join(d, 's_sed.fits')
        swav = [case['wav'][i] for i in sidx]
        pkgio.write_sed_file(path, case['names'][0], swav, pkgio.wav_to_nu(swav),
                             case['apertures'][:nap] if case['with_ap'] else None,
                             [[case['val'][0][a][i] for i in sidx] for a in range(nap)],
                             [[case['unc'][0][a][i] for i in sidx] for a in range(nap)],
                             wav_unit='MICRONS' if legacy else 'um', nu_unit='HZ' if legacy else 'Hz', flux_unit=ustr,
                             distance_cm=3.0856775814913674e21 * case['distance_kpc'])
        for order in ('nu', 'wav'):
            with must_succeed('SED.read of a file with flux unit %r' % ustr):
                r = SED.read(path, unit_flux=un, order=order)
            idx = check_spectral(r, case, order, 'foreign SED file', 'flux', 'error')
            fv = np.asarray(r.flux.to(un).value)
            for a in range(nap):
                for p, i in enumerate(idx):
                    if not close(fv[a][p], case['val'][0][a][i]):
                        fail('SED file stored in %s wavelength with unit %r, read with order=%s: flux at %r micron is %r, '
                             'stored %r' % ('increasing' if case['supplied'] == 'asc' else 'decreasing', ustr, order,
                                            case['wav'][i], fv[a][p], case['val'][0][a][i]), 'c12:foreign_sed')
        if not legacy:
            cpath = os.path.join(d, 'flux.fits')
            pkgio.write_cube(cpath, case['names'], swav, case['apertures'][:nap] if case['with_ap'] else None,
                             [[[case['val'][m][a][i] for i in sidx] for a in range(nap)] for m in range(nm)],
                             [[[case['unc'][m][a][i] for i in sidx] for a in range(nap)] for m in range(nm)] if case['with_unc'] else None,
                             val_unit=ustr)
            for order in ('nu', 'wav'):
                with must_succeed('SEDCube.read of a cube with BUNIT %r%s' % (ustr, '' if case['with_unc'] else ' and no uncertainties')):
                    r = SEDCube.read(cpath, order=order, memmap=case['memmap'])
                idx = check_spectral(r, case, order, 'foreign cube', 'val', 'unc')
                vv = np.asarray(r.val.to(un).value)
                for m in range(nm):
                    for a in range(nap):
                        for p, i in enumerate(idx):
                            if not close(vv[m][a][p], case['val'][m][a][i]):
                                fail('cube stored in %s wavelength, read with order=%s: value of %s aperture %d at %r micron '
                                     'is %r, stored %r' % ('increasing' if case['supplied'] == 'asc' else 'decreasing', order,
                                                           case['names'][m], a, case['wav'][i], vv[m][a][p], case['val'][m][a][i]),
                                     'c12:foreign_cube')
    return labels, len(case['wav']) >= 3


ENTRIES = {'sed': run_sed, 'cube': run_cube, 'conv': run_conv, 'foreign': run_foreign}


def plan(ctx):
    ctx.run_given('sed', arrays(need_models=False), ctx.scale(40, 800))
    ctx.run_given('cube', arrays(), ctx.scale(40, 800))
    ctx.run_given('conv', arrays(), ctx.scale(30, 500))
    ctx.run_given('foreign', arrays(), ctx.scale(30, 500))
