"""
C10 - fit() writes one faithful record per eligible source and reads back unchanged; post-processing accepts a file,
one result object or a list interchangeably and leaves what it was given unchanged.

Entries
  fitfile   generated package + data file + fit() configuration; records read back vs the object interface
  postproc  rule-based state machine: sequences of post-processing calls run on the three input forms, outputs compared
            across forms, in-memory records and the file compared with their pre-call snapshots after every call
"""
import os

import numpy as np
from hypothesis import strategies as st
from hypothesis.stateful import rule, initialize, precondition

from vlib import gen, pkgio
from vlib import fitinfo_gen as fg
from vlib import oracle_fit as of
from vlib.runner import fail, must_succeed, quiet, TracedMachine

PROPERTY_ID = 'C10'
LEVEL = 'exploration'
DESIGN_REF = 'DESIGN.md section 3, C10'
RULE = ('Entry "fitfile": Hypothesis generates a package (distance-independent or -dependent; per-file tables or cube with '
        'wavelength filters), a data file of 1..12 lines mixing eligible and ineligible sources (>=1 eligible), n_data_min '
        'in 0..6, an output selector of every form and output_convolved; fit() is run and the records read back are '
        'compared bit-exactly (NaN-aware) with Fitter.fit + keep, and the metadata with what was passed. Entry "postproc": '
        'rule-based machine over a fitted cube package: up to 4 calls drawn from write_parameters / '
        'write_parameter_ranges / extract_parameters / filter_output / plot with different selectors, each executed on the '
        'file, the list of records and (one-record files) the single object. Non-trivial: fitfile = >=2 eligible and >=1 '
        'ineligible source; postproc = >=2 calls of which an earlier one used a tighter selector than a later one.')
RULE += (' ' + 'Also varied: data lines that share a source name with different photometry, grids of 300 / 700 models, mixed storage (.gz).')
RULE += (' ' + "Entry 'seq': sequences of 1..5 records written then read (fresh objects, one re-used Source object, or the same result written again after keep()). Data files end with or without a newline or with blank lines.")
RULE += (' ' + 'A quarter of the data files use catalogue-style source names (with #, brackets, colons).')
ASSUMPTIONS = [
    'the object interface used for comparison is Fitter(...same arguments...).fit(Source.from_ascii(line)) with the same '
    'memory-mapping default as fit()',
    "selectors passed to fit() carry a numeric value (fit() prints it); ('A', 0) stands for 'all'",
    'text outputs are compared byte for byte across input forms; plots by the segments of the returned LineCollection',
]

SELECTORS = st.one_of(
    st.tuples(st.just('A'), st.sampled_from([0, 1.])),
    st.tuples(st.just('N'), st.integers(0, 6)),
    st.tuples(st.sampled_from('CDEF'), st.sampled_from([0.05, 0.55, 3.3, 21.7, 500.5, 1e31])),
).map(list)


@st.composite
def data_lines(draw, nfilt, k, logmodels, distance_mode, dup_names=False):
    n = draw(st.integers(1, 12))
    out = []
    for i in range(n):
        s = draw(gen.sources(nfilt, k=k if draw(st.booleans()) else None, logmodels=logmodels, distance_mode=distance_mode,
                             name='src%02d' % i, ignored='positive'))
        out.append(s)
    if draw(st.integers(0, 3)) == 0:
        # catalogue designations: any run of non-blank characters is a name ('#' included, leading or inside)
        for i, s_ in enumerate(out):
            style = draw(st.sampled_from(['plain', 'plain', 'hash_inside', 'hash_first', 'punct']))
            if style != 'plain':
                s_['name'] = {'hash_inside': 'N159#%d', 'hash_first': '#%d', 'punct': 'J05:32-66.4[%d]'}[style] % i
    if dup_names and n >= 2 and draw(st.integers(0, 3)) == 0:
        # catalogues list an object several times (several epochs, concatenated tables): lines sharing a name are still
        # separate sources with their own photometry
        for _ in range(draw(st.integers(1, 2))):
            a = draw(st.integers(0, n - 2))
            b = draw(st.integers(a + 1, n - 1))
            out[b]['name'] = out[a]['name']
    return out


@st.composite
def fit_cases(draw, formats2=('v1', 'v1', 'v2wav'), formats3=('v1', 'v1', 'v2wav'), max_lines=12, dup_names=False):
    mode = draw(st.sampled_from(['2d', '3d']))
    if mode == '2d':
        c = draw(gen.fit_case_2d(max_models=6, max_filters=5, max_sources=1, formats=formats2))
        logmodels = c['grid']['logflux']
    else:
        c = draw(gen.fit_case_3d(max_models=5, max_filters=4, max_sources=1, formats=formats3))
        logmodels = None
    if mode == '2d' and c['format'] == 'v1' and draw(st.integers(0, 5)) == 0:
        # a grid of several hundred models (real grids hold 10^4..10^5): only a handful of fits are kept per source
        nbig = draw(st.sampled_from([300, 700]))
        nf0 = len(c['filters'])
        base = c['grid']['logflux']
        c['grid'] = {'names': ['g%04d' % i for i in range(nbig)], 'dup': None,
                     'logflux': [[base[i % len(base)][j] + 0.37 * ((i * 7 + j * 3) % 11) - 0.013 * i for j in range(nf0)]
                                 for i in range(nbig)]}
        c['big_grid'] = True
    c['memmap'] = c['format'] != 'v1'   # fit() always uses the memory-mapping default
    nf = len(c['filters'])
    k = of.extinction_pattern(c['law']['wav'], c['law']['chi'], [f['wav'] for f in c['filters']])
    c['mode'] = mode
    c['lines'] = draw(data_lines(nf, k, logmodels, mode == '3d', dup_names))[:max_lines]
    counts = sorted(set(sum(1 for f in s['flags'] if f in (1, 4)) for s in c['lines']))
    # n_data_min: at least one eligible source
    nmin = draw(st.integers(0, 6))
    c['n_data_min'] = min(nmin, counts[-1])
    c['selector'] = draw(SELECTORS)
    if c.get('big_grid'):
        c['selector'] = draw(st.sampled_from([['N', 4], ['N', 1], ['F', 3.3], ['N', 40]]))
    c['output_convolved'] = draw(st.booleans())
    c['av_range'] = c['av_ranges'][0]
    c['file_tail'] = draw(st.sampled_from(['newline', 'newline', 'no_newline', 'blank_lines']))
    return c


def build(case, d):
    mdir = os.path.join(d, 'models')
    os.mkdir(mdir)
    if case['mode'] == '2d':
        gen.build_package_2d(mdir, case)
        dr = None
    else:
        gen.build_package_3d(mdir, case)
        dr = gen.distance_range_quantity(case['setup'])
    return mdir, dr


def fit_args(case, mdir, dr):
    from astropy import units as u
    law = gen.law_object(case['law'], *case.get('law_units', ['um', 'cm2/g']))
    if case['format'] == 'v2wav':
        fnames = [f['wav'] * u.micron for f in case['filters']]
    else:
        fnames = [f['name'] for f in case['filters']]
    aps = np.array(case['theta']) * u.arcsec
    if dr is None:
        dr = [1., 2.] * u.kpc
    return fnames, aps, law, dr


def run_fit(case, d, mdir, dr, output):
    from sedfitter import fit
    fnames, aps, law, dr = fit_args(case, mdir, dr)
    data = os.path.join(d, 'data.txt')
    lines = [pkgio.source_line(s['name'], s['x'], s['y'], s['flags'], s['flux'], s['err']) for s in case['lines']]
    pkgio.write_data_file(data, lines)
    tail = case.get('file_tail', 'newline')
    if tail != 'newline':
        # how the data file ends: without a final newline, or with blank / whitespace-only lines after the last source
        with open(data, 'w') as f:
            f.write('\n'.join(l.rstrip('\n') for l in lines))
            f.write({'no_newline': '', 'blank_lines': '\n\n   \n'}[tail])
    with must_succeed('fit()'), quiet():
        fit(data, fnames, aps, mdir, output, n_data_min=case['n_data_min'], extinction_law=law,
            av_range=list(case['av_range']), distance_range=dr, output_format=tuple(case['selector']),
            output_convolved=case['output_convolved'])
    return lines, (fnames, aps, law, dr)


def run_fitfile(case, ctx):
    from astropy import units as u
    from sedfitter import Fitter
    from sedfitter.source import Source
    labels = {'mode_' + case['mode'], 'format_' + case['format'], 'sel_' + case['selector'][0], 'big_grid' if case.get('big_grid') else 'small_grid',
              'convolved' if case['output_convolved'] else 'no_convolved', 'n_data_min=%d' % case['n_data_min']}
    labels.add('data_file_ends_with_' + case.get('file_tail', 'newline'))
    if len(set(s['name'] for s in case['lines'])) < len(case['lines']):
        labels.add('lines_sharing_a_name')
    with ctx.tempdir() as d:
        mdir, dr = build(case, d)
        output = os.path.join(d, 'output.fitinfo')
        lines, (fnames, aps, law, drq) = run_fit(case, d, mdir, dr, output)
        eligible = [i for i, s in enumerate(case['lines'])
                    if sum(1 for f in s['flags'] if f in (1, 4)) >= case['n_data_min']]
        # the object interface
        with must_succeed('Fitter()'), quiet():
            fitter = Fitter(fnames, aps, mdir, extinction_law=law, av_range=list(case['av_range']), distance_range=drq)
        # the object interface is driven in REVERSE input order: a record must not depend on which sources were fitted
        # before it (fit() re-uses one fitter for the whole data file)
        expected = {}
        for i in reversed(eligible):
            with must_succeed('Fitter.fit / keep'), quiet():
                info = fitter.fit(Source.from_ascii(lines[i]))
                if not case['output_convolved']:
                    info.model_fluxes = None
                info.keep(tuple(case['selector']))
            expected[i] = fg.snapshot(info)
        expected = [expected[i] for i in eligible]
        with must_succeed('reading the fit output file'):
            got, meta = fg.read_fit_file(output)
        got_names = [g.source.name for g in got]
        want_names = [case['lines'][i]['name'] for i in eligible]
        if got_names != want_names:
            fail('fit output holds records for %r; sources with >= %d fitted points are, in input order, %r' % (
                got_names, case['n_data_min'], want_names), 'c10:records_not_eligible_in_order')
        for g, e, nm in zip(got, expected, want_names):
            if (g.model_fluxes is not None) != case['output_convolved']:
                fail('record %s: predicted fluxes %s although output_convolved=%r' % (
                    nm, 'present' if g.model_fluxes is not None else 'absent', case['output_convolved']),
                    'c10:model_fluxes_presence')
            diff = fg.diff_snapshots(fg.snapshot(g), e)
            if diff:
                fail('record %s read from the file differs from Fitter.fit + keep(%r) in %s' % (nm, case['selector'], diff),
                     'c10:record_differs')
        # metadata
        if meta.model_dir != mdir:
            fail('metadata: model_dir %r != %r' % (meta.model_dir, mdir), 'c10:meta')
        if len(meta.filters) != len(case['filters']):
            fail('metadata: %d filters, %d were passed' % (len(meta.filters), len(case['filters'])), 'c10:meta')
        for mf, f, th in zip(meta.filters, case['filters'], case['theta']):
            w = float(mf['wav'].to(u.micron).value)
            if not (abs(w - f['wav']) <= 1e-12 * f['wav']) or not (abs(mf['aperture_arcsec'] - th) <= 1e-12 * th):
                fail('metadata: filter %r, passed wav=%r aperture=%r' % (mf, f['wav'], th), 'c10:meta')
            if case['format'] != 'v2wav' and mf.get('name') != f['name']:
                fail('metadata: filter name %r != %r' % (mf.get('name'), f['name']), 'c10:meta')
        lw = np.asarray(meta.extinction_law.wav.to(law.wav.unit).value)
        lc = np.asarray(meta.extinction_law.chi.to(law.chi.unit).value)
        if lw.tobytes() != np.asarray(law.wav.value).tobytes() or lc.tobytes() != np.asarray(law.chi.value).tobytes():
            fail('metadata: extinction law differs from the one passed', 'c10:meta')
        del fitter
    nontrivial = len(eligible) >= 2 and len(eligible) < len(case['lines'])
    if len(eligible) < len(case['lines']):
        labels.add('has_ineligible')
    return labels, nontrivial


# ------------------------------------------------------------------------------------------ post-processing histories

OPS = ['write_parameters', 'write_parameter_ranges', 'extract_parameters', 'filter_output', 'plot']


@st.composite
def machine_cases(draw):
    c = draw(fit_cases(formats2=('v2wav',), formats3=('v2wav',), max_lines=4))
    # the results the post-processing calls work on: everything, or what an output selector left of it (possibly no fit at
    # all for some source - such a record is still a record)
    c['selector'] = draw(st.sampled_from([['A', 0], ['A', 0], ['A', 0], ['N', 0], ['N', 2], ['C', 0.55], ['C', 21.7], ['E', 0.55],
                                          ['E', 3.3], ['D', 3.3], ['F', 0.55]]))
    c['n_data_min'] = min(c['n_data_min'], 2)
    c['output_convolved'] = draw(st.booleans())
    return c


def selector_size(sel):
    """rough looseness order used only for the non-triviality label"""
    if sel[0] == 'A':
        return 1e99
    return float(sel[1])


class PostprocMachine(TracedMachine()):

    def __init__(self):
        super(PostprocMachine, self).__init__()
        self.ready = False
        self.calls = []
        self.dir = None

    def cleanup(self):
        import shutil
        if self.dir:
            shutil.rmtree(self.dir, ignore_errors=True)
            self.dir = None

    @initialize(case=machine_cases())
    def setup(self, case):
        self.log('setup', case=case)
        self.guard(self._setup, case)

    def _setup(self, case):
        import tempfile
        self.case = case
        self.dir = tempfile.mkdtemp(prefix='c10m-')
        mdir, dr = build(case, self.dir)
        self.output = os.path.join(self.dir, 'output.fitinfo')
        run_fit(case, self.dir, mdir, dr, self.output)
        with must_succeed('reading the fit output file'):
            self.records, _ = fg.read_fit_file(self.output)
        if not self.records:
            fail('fit() wrote no record although a source was eligible', 'c10:records_not_eligible_in_order')
        self.snaps = [fg.snapshot(r) for r in self.records]
        self.file_bytes = open(self.output, 'rb').read()
        self.single = self.records[0] if len(self.records) == 1 else None
        self.nstep = 0
        self.ready = True

    def forms(self):
        out = [('file', self.output), ('list', self.records)]
        if self.single is not None:
            out.append(('object', self.single))
        return out

    @precondition(lambda self: self.ready and not self._dead)
    @rule(op=st.sampled_from(OPS), sel=SELECTORS, chi=st.sampled_from([0.3, 7.5, 1e3]), use_cpd=st.booleans(),
          sed_type=st.sampled_from(['interp', 'interp', 'largest', 'all']))
    def call(self, op, sel, chi, use_cpd, sed_type):
        self.log('call', op=op, sel=sel, chi=chi, use_cpd=use_cpd, sed_type=sed_type)
        self.guard(self._call, op, sel, chi, use_cpd, sed_type)

    def _call(self, op, sel, chi, use_cpd, sed_type):
        import sedfitter
        if op == 'filter_output' and any(len(r.chi2) == 0 for r in self.records):
            # its criterion is the best chi^2 of each source (C18: sources with at least one fit); the other functions list a
            # source without fits as just that
            op = 'write_parameters'
        self.nstep += 1
        results = []
        for form, arg in self.forms():
            odir = os.path.join(self.dir, 'step%d_%s' % (self.nstep, form))
            os.mkdir(odir)
            what = '%s(%s input, select %r)' % (op, form, sel)
            with must_succeed(what), quiet():
                if op == 'write_parameters':
                    sedfitter.write_parameters(arg, os.path.join(odir, 'out.txt'), select_format=tuple(sel))
                    res = open(os.path.join(odir, 'out.txt'), 'rb').read()
                elif op == 'write_parameter_ranges':
                    sedfitter.write_parameter_ranges(arg, os.path.join(odir, 'out.txt'), select_format=tuple(sel))
                    res = open(os.path.join(odir, 'out.txt'), 'rb').read()
                elif op == 'extract_parameters':
                    sedfitter.extract_parameters(input=arg, output_prefix=os.path.join(odir, 'p_'), output_suffix='.txt',
                                                 select_format=tuple(sel))
                    res = tuple((fn, open(os.path.join(odir, fn), 'rb').read()) for fn in sorted(os.listdir(odir)))
                elif op == 'filter_output':
                    good, bad = os.path.join(odir, 'good'), os.path.join(odir, 'bad')
                    kw = {'cpd': chi} if use_cpd else {'chi': chi}
                    sedfitter.filter_output(arg, output_good=good, output_bad=bad, **kw)
                    res = []
                    for pth in (good, bad):
                        if os.path.exists(pth) and os.path.getsize(pth) > 0:
                            recs, _ = fg.read_fit_file(pth)
                            res.append(tuple(fg.snapshot(r) for r in recs))
                        else:
                            res.append(())
                    res = tuple(res)
                else:
                    figs = sedfitter.plot(arg, output_dir=None, select_format=tuple(sel), sed_type=sed_type)
                    res = []
                    for name in sorted(figs):
                        lc = figs[name].get('lines')
                        segs = () if lc is None else tuple(np.asarray(s).tobytes() for s in lc.get_segments())
                        res.append((name, segs))
                    res = tuple(res)
            results.append((form, res))
            # whatever was passed must be left as it was
            for i, r in enumerate(self.records):
                diff = fg.diff_snapshots(fg.snapshot(r), self.snaps[i])
                if diff:
                    fail('%s changed the result object of %s it was given (%s)' % (what, r.source.name, diff),
                         'c10:input_modified')
            if open(self.output, 'rb').read() != self.file_bytes:
                fail('%s changed the fit file it was given' % what, 'c10:input_modified')
        base_form, base = results[0]
        for form, res in results[1:]:
            if res != base:
                fail('step %d: %s with select %r gives different output for the %s form than for the %s form '
                     '(previous calls: %r)' % (self.nstep, op, sel, form, base_form, self.calls), 'c10:forms_differ')
        self.calls.append([op, sel])

    def finish(self):
        labels = {'postproc_calls=%d' % min(len(self.calls), 4)}
        for c in self.calls:
            labels.add('op_' + c[0])
        if self.ready and self.single is not None:
            labels.add('single_record_object_form')
        tight_then_loose = any(selector_size(self.calls[i][1]) < selector_size(self.calls[j][1])
                               for i in range(len(self.calls)) for j in range(i + 1, len(self.calls)))
        return labels, len(self.calls) >= 2 and tight_then_loose


# ------------------------------------------------------------------------------------------ sequences of records

@st.composite
def seq_cases(draw):
    nfilt = draw(st.integers(1, 4))
    nmod = draw(st.integers(2, 8))
    names = ['model_%04d' % i for i in range(nmod)]
    wf = draw(st.booleans())
    nrec = draw(st.integers(1, 4))
    recs = [draw(fg.record_desc(names, nfilt, with_fluxes=wf, min_fits=2 if i == 0 else 0, name='s%d' % i)) for i in range(nrec)]
    return {'names': names, 'nfilt': nfilt, 'records': recs,
            # who owns the objects that are written: fresh objects per record (as fit() makes them), ONE Source object given
            # new photometry before each fit, or the SAME result written again after a tighter selection
            'writer': draw(st.sampled_from(['fresh', 'one_source_object', 'same_result_after_keep'])),
            'keep_n': draw(st.integers(1, 2))}


def run_seq(case, ctx):
    """'all sequences of >= 1 records written then read, compared NaN-aware'"""
    from sedfitter.fit_info import FitInfoFile
    names, nfilt = case['names'], case['nfilt']
    labels = {'writer_' + case['writer'], 'records=%d' % len(case['records'])}
    with ctx.tempdir() as d:
        meta = fg.Meta(os.path.join(d, 'models'), [1. + j for j in range(nfilt)], [3.] * nfilt,
                       {'wav': [0.1, 0.55, 10.], 'chi': [3., 1., 0.1]})
        path = os.path.join(d, 'seq.fitinfo')
        with must_succeed('writing a sequence of records'):
            if case['writer'] == 'one_source_object':
                snaps = fg.write_fit_file_reusing(path, case['records'], names, meta)
            else:
                infos = [fg.build_info(r, names, meta) for r in case['records']]
                snaps = []
                fout = FitInfoFile(path, 'w')
                for i, info in enumerate(infos):
                    fout.write(info)
                    snaps.append(fg.snapshot(info))
                    if i == 0 and case['writer'] == 'same_result_after_keep':
                        info.keep(('N', case['keep_n']))
                        fout.write(info)
                        snaps.append(fg.snapshot(info))
                fout.close()
        with must_succeed('reading the records back'):
            got, _ = fg.read_fit_file(path)
        if len(got) != len(snaps):
            fail('%d records written, %d read back' % (len(snaps), len(got)), 'c10:seq_count')
        for i, (g, sn) in enumerate(zip(got, snaps)):
            diff = fg.diff_snapshots(fg.snapshot(g), sn)
            if diff:
                fail('record %d of %d (%s) read back differs from what was written in %s' % (
                    i + 1, len(snaps), case['writer'].replace('_', ' '), diff), 'c10:seq_record_differs')
    return labels, len(snaps) >= 2


ENTRIES = {'fitfile': run_fitfile, 'seq': run_seq}
MACHINES = {'postproc': PostprocMachine}


def plan(ctx):
    ctx.run_given('fitfile', fit_cases(dup_names=True), ctx.scale(40, 800), shrink=not ctx.quick)
    ctx.run_machine('postproc', ctx.scale(12, 250), 4, shrink=not ctx.quick)
    ctx.run_given('seq', seq_cases(), ctx.scale(40, 800))
