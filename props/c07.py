"""
C07 - convolved-flux files keep model identity, identically in both package formats.

One abstract package (distinct flux pattern per model and aperture, permuted parameter table, file names whose directory
order differs from the table order, either spectral storage order, optional sub-directories) is emitted by the
independent writer as a per-file package and as a cube package; convolve_model_dir runs on both; the convolved files
are read by the independent reader and compared with the exact reference and with each other; then Fitter on
{per-file, cube without memmap, cube with memmap} is checked against the reference fitter per model name.
"""
import os
import math

import numpy as np
from hypothesis import strategies as st

from vlib import gen, pkgio, convpkg
from vlib import oracle_fit as of
from vlib import oracle_misc as om
from vlib.runner import fail, must_succeed, quiet
from props import c02 as c02mod
from props import c06 as c06mod

PROPERTY_ID = 'C07'
LEVEL = 'exploration'
DESIGN_REF = 'DESIGN.md section 3, C07'
RULE = ('Hypothesis generates an abstract package (1..8 models with names in styles whose sort order differs from the '
        'numeric order, 1..5 apertures, 3..10 wavelengths, distinct flux/error pattern per (model, aperture), a row '
        'permutation of the parameter table, ascending or descending spectral storage, float64 or float32 cube, optional '
        'SED sub-directories), 2..4 filters inside the SED range, an extinction law, sources planted near the models and '
        'distance settings. One evaluation = both formats convolved + three fitter variants. Non-trivial = >= 2 models and '
        'a non-identity table permutation; distinct = distinct canonical JSON.')
RULE += (' ' + 'Also varied: stored units of SED files / cube / error columns, aperture axis stored in any order, SED files plain / .gz / in sub-directories, parameters.fits.gz, distance ranges that are a whole number of the package\'s steps up to rounding (relation: all variants use ONE distance grid). Entry "grid": the same convolved fluxes as a per-file and as a cube package fitted over such ranges (typed round numbers in pc / kpc).')
RULE += (' ' + 'All four fitter variants (per-file, cube, cube+memmap, cube+memmap with reversed filters) are set up before any is used. Model names also come in styles whose <name>_sed.fits files sort differently from the names, and as ordinary words.')
RULE += (' ' + 'In 3 of 5 cases one more filter is convolved into both packages at the end of the session, after write_parameters / write_parameter_ranges / extract_parameters ran on a fit; its file must follow the same row order and hold the same values.')
RULE += (' ' + 'The aperture axis of the SED files and of the cube is stored in AU, cm or pc (independently); carried-over apertures are compared as lengths.')
RULE += (' ' + 'In a third of the cases one filter reaches beyond an end of the spectral range of the SEDs.')
ASSUMPTIONS = [
    'per-file vs cube convolved values: 1e-10 relative for float64 cubes, 1e-5 for float32 cubes',
    'fits of each variant are checked against the reference fitter built from the exact reference convolution '
    '(float32 slack for float32 cubes and memory-mapped fitters), which implies mutual agreement within those tolerances',
]


@st.composite
def cases(draw):
    pkg = draw(convpkg.abstract_packages(max_models=8, max_ap=5, min_wav=3, max_wav=10))
    filters = draw(convpkg.filters_for(pkg['wav'], 2, 4, inside=True))
    if draw(st.integers(0, 2)) == 0:
        # one filter whose tabulated curve reaches beyond an end of the SEDs' spectral range (a sub-mm filter on SEDs that
        # stop at 500 micron): the convolution runs over the part that is covered
        edge = draw(convpkg.filters_for(pkg['wav'], 1, 1, inside=False))[0]
        edge['name'] = 'edge'
        filters[-1] = edge
    law = draw(gen.wide_laws(8))
    nf = len(filters)
    k = of.extinction_pattern(law['wav'], law['chi'], [f['central'] for f in filters])
    # the unit the aperture axis is stored in (SED files / cube): the convolved files carry the apertures over as lengths
    pkg['sed_ap_unit'] = draw(st.sampled_from(['AU', 'AU', 'cm', 'pc']))
    pkg['cube_ap_unit'] = draw(st.sampled_from(['AU', 'AU', 'cm', 'pc']))
    c = {'pkg': pkg, 'filters': filters, 'law': law, 'subdir': draw(st.sampled_from([0, 0, 2])),
         'av_range': draw(gen.av_ranges())}
    if pkg['apdep']:
        c['setup'] = draw(gen.distance_setup(pkg['apertures'], nf, step=pkg['logd_step']))
        c['setup']['step'] = pkg['logd_step']
        c['theta'] = c['setup']['theta']
    else:
        c['theta'] = [draw(st.floats(0.5, 10., allow_nan=False)) for _ in range(nf)]
    # photometry near the (reference) convolved fluxes of the models
    logmodels = []
    for m in range(len(pkg['names'])):
        row = []
        for f in filters:
            fl, _ = convpkg.reference_convolved({'names': [pkg['names'][m]], 'wav': pkg['wav'], 'apertures': pkg['apertures'],
                                                 'flux': [pkg['flux'][m]], 'err': [pkg['err'][m]]}, f)
            v = fl[0][0] if fl[0][0] > 0 else 1.
            if pkg['apdep']:
                dmid = math.sqrt(c['setup']['dmin_kpc'] * c['setup']['dmax_kpc'])
                v = v / dmid ** 2
            row.append(math.log10(v) if v > 0 else 0.)
        logmodels.append(row)
    ns = draw(st.integers(1, 3))
    c['sources'] = [draw(gen.sources(nf, k=k, logmodels=logmodels, distance_mode=pkg['apdep'], ignored='positive',
                                     name='src%d' % i)) for i in range(ns)]
    # one more filter convolved into the packages at the end of the session, after this tool was used on a fit
    c['late_filter'] = draw(st.sampled_from([None, None, 'write_parameters', 'write_parameter_ranges', 'extract_parameters']))
    return c


def emit_v1_subdirs(pkg, d, n):
    """per-file package with seds/<first n letters>/<name>_sed.fits and length_subdir = n"""
    convpkg.emit(dict(pkg, sed_layout='gz' if pkg.get('sed_layout', 'flat').endswith('gz') else 'flat'), d, 'v1')
    pkgio.write_conf(d, pkg['apdep'], pkg['logd_step'], version=None, length_subdir=n, style=pkg.get('conf_style', 0))
    sdir = os.path.join(d, 'seds')
    for fn in sorted(os.listdir(sdir)):
        sub = os.path.join(sdir, fn[:n])
        if not os.path.isdir(sub):
            os.mkdir(sub)
        os.rename(os.path.join(sdir, fn), os.path.join(sub, fn))


def run_case(case, ctx):
    from astropy import units as u
    from sedfitter import Fitter
    from sedfitter.convolve import convolve_model_dir
    pkg, filters = case['pkg'], case['filters']
    names = pkg['names']
    nap = 1 if pkg['apertures'] is None else len(pkg['apertures'])
    f32 = pkg['cube_dtype'] == 'f4'
    aidx = convpkg.stored_ap_index(pkg)
    permuted = pkg['perm'] != sorted(pkg['perm'])
    labels = {'storage_' + pkg['storage'], 'n_ap>1' if nap > 1 else 'n_ap=1', 'apdep' if pkg['apdep'] else 'not_apdep',
              'sed_unit_' + pkg.get('sed_unit', 'mJy').replace(' ', '_'), 'cube_unit_' + pkg.get('cube_unit', 'mJy'),
              'apertures_stored_' + pkg.get('ap_storage', 'asc'), 'cube_unc_unit_' + pkg.get('cube_unc_unit', 'same')}
    labels.add('aperture_units_sed_%s_cube_%s' % (pkg.get('sed_ap_unit', 'AU'), pkg.get('cube_ap_unit', 'AU')))
    nu_lo_, nu_hi_ = om.C_UM_HZ / pkg['wav'][-1], om.C_UM_HZ / pkg['wav'][0]
    if any(min(f['nu']) < nu_lo_ for f in filters):
        labels.add('filter_reaches_beyond_the_long_wavelength_end')
    if any(max(f['nu']) > nu_hi_ for f in filters):
        labels.add('filter_reaches_beyond_the_short_wavelength_end')
    if f32:
        labels.add('float32_cube')
    if permuted:
        labels.add('permuted')
    if case['subdir']:
        labels.add('sed_subdirs')
    labels.add('sed_layout_' + pkg.get('sed_layout', 'flat'))
    if pkg.get('par_gz'):
        labels.add('parameters.fits.gz')
    if pkg['apdep']:
        labels.add('distance_range_' + case['setup'].get('shape', '?'))
    law = gen.law_object(case['law'])
    k = of.extinction_pattern(case['law']['wav'], case['law']['chi'], [f['central'] for f in filters])
    with ctx.tempdir() as d1, ctx.tempdir() as d2:
        # ---- convolution of both formats
        if case['subdir']:
            emit_v1_subdirs(pkg, d1, case['subdir'])
        else:
            convpkg.emit(pkg, d1, 'v1')
        convpkg.emit(pkg, d2, 'v2')
        fobjs = [convpkg.filter_object(f) for f in filters]
        with must_succeed('convolve_model_dir (per-file format)'), quiet():
            convolve_model_dir(d1, fobjs)
        fobjs = [convpkg.filter_object(f) for f in filters]
        with must_succeed('convolve_model_dir (cube format)'), quiet():
            convolve_model_dir(d2, fobjs, memmap=bool(len(names) % 2))
        refs = {}
        for f in filters:
            t1 = pkgio.read_convolved(os.path.join(d1, 'convolved', f['name'] + '.fits'))
            t2 = pkgio.read_convolved(os.path.join(d2, 'convolved', f['name'] + '.fits'))
            for t, fmt, what in ((t1, 'v1', 'per-file'), (t2, 'v2', 'cube')):
                order = convpkg.table_order(pkg, fmt)
                if t['names'] != order:
                    fail('%s format, convolved/%s.fits: rows %r, expected the %s order %r' % (
                        what, f['name'], t['names'], 'parameter-table' if fmt == 'v1' else 'cube', order), 'c07:row_order')
                if t['filtwav'] is None or not (abs(t['filtwav'] - f['central']) <= 1e-12 * f['central']):
                    fail('%s format: FILTWAV %r, filter central wavelength %r' % (what, t['filtwav'], f['central']),
                         'c07:filtwav')
                if pkg['apertures'] is not None:
                    # carried over as lengths: the values in the unit the file states, whichever unit that is
                    ufac = dict((k_.lower(), 1. / v_) for k_, v_ in gen.AP_UNIT_FACTOR.items()).get(str(t['aperture_unit']).strip().lower())
                    if t['apertures'] is None or len(t['apertures']) != nap or ufac is None or \
                            any(not (abs(a * ufac - pkg['apertures'][aidx[p_]]) <= 1e-10 * a * ufac) for p_, a in enumerate(t['apertures'])):
                        fail('%s format: apertures %r %r, SED apertures %r AU' % (what, t['apertures'], t['aperture_unit'],
                                                                                 pkg['apertures']), 'c07:apertures')
                spkg = c06mod.stored(pkg, fmt)
                rf, re_ = convpkg.reference_convolved(spkg, f)
                rtol = 1e-5 if (fmt == 'v2' and f32) else 1e-10
                for row, name in enumerate(t['names']):
                    m = names.index(name)
                    for p_ in range(nap):
                        a = aidx[p_]   # the files keep the stored order of the aperture axis
                        if not (abs(t['flux'][row][p_] - rf[m][a]) <= rtol * abs(rf[m][a]) + 1e-300):
                            fail('%s format, convolved/%s.fits: the row labelled %s holds flux %r for the aperture of %r AU, '
                                 'the SED of %s gives %r there' % (what, f['name'], name, t['flux'][row][p_], pkg['apertures'][a]
                                                                    if pkg['apertures'] else None, name, rf[m][a]),
                                 'c07:row_holds_other_model')
                        if not (abs(t['err'][row][p_] - re_[m][a]) <= max(rtol, 1e-9) * abs(re_[m][a]) + 1e-300):
                            fail('%s format, convolved/%s.fits: the row labelled %s holds error %r for the aperture of %r AU, '
                                 'the SED of %s gives %r there' % (what, f['name'], name, t['err'][row][p_], pkg['apertures'][a]
                                                                    if pkg['apertures'] else None, name, re_[m][a]),
                                 'c07:error_of_other_model')
            # the two formats agree
            rtol = 1e-5 if f32 else 1e-10
            for row, name in enumerate(t1['names']):
                r2 = t2['names'].index(name)
                for a in range(nap):
                    if not (abs(t1['flux'][row][a] - t2['flux'][r2][a]) <= rtol * abs(t1['flux'][row][a])) or \
                            not (abs(t1['err'][row][a] - t2['err'][r2][a]) <= max(rtol, 1e-9) * abs(t1['err'][row][a])):
                        fail('convolved/%s.fits differs between formats for %s aperture %d: flux %r vs %r, error %r vs %r' % (
                            f['name'], name, a, t1['flux'][row][a], t2['flux'][r2][a], t1['err'][row][a], t2['err'][r2][a]),
                            'c07:formats_disagree')
            refs[f['name']] = convpkg.reference_convolved(pkg, f)[0]
        if any(v <= 0. for f in filters for row in refs[f['name']] for v in row):
            return labels | {'zero_flux_filter_no_fits'}, False
        # ---- fits from each variant against the reference fitter
        fnames = [f['name'] for f in filters]
        aps = np.array(case['theta']) * u.arcsec
        if pkg['apdep']:
            dr = gen.distance_range_quantity(case['setup'])
            dk = [float(v) for v in dr.to(u.kpc).value]
            grids = of.distance_grid(dk[0], dk[1], pkg['logd_step'])
        else:
            dr = [1., 2.] * u.kpc
        reported_sc = {}
        last_info = {}
        # all variants are set up first and stay alive while each is used (fitters do not share state); the last one lists the
        # filters in reverse order
        nfl = len(filters)
        variants = [(d1, False, 'per-file', list(range(nfl))), (d2, False, 'cube', list(range(nfl))),
                    (d2, True, 'cube+memmap', list(range(nfl))), (d2, True, 'cube+memmap, filters reversed', list(range(nfl))[::-1])]
        fitters = []
        for d, memmap, what, perm in variants:
            with must_succeed('Fitter() on the %s package' % what), quiet():
                fitters.append(Fitter([fnames[j] for j in perm], aps[perm], d, extinction_law=law, av_range=list(case['av_range']),
                                      distance_range=dr, use_memmap=memmap))
        for (d, memmap, what, perm), fitter in zip(variants, fitters):
            slack = memmap or (f32 and d == d2)
            for src in case['sources']:
                bands = of.transform_source(src['flags'], src['flux'], src['err'])
                psrc = dict(src, flags=[src['flags'][j] for j in perm], flux=[src['flux'][j] for j in perm],
                            err=[src['err'][j] for j in perm])
                with must_succeed('Fitter.fit'), quiet():
                    info = fitter.fit(gen.source_object(psrc))
                last_info[d] = info
                got = [str(x).strip() for x in info.model_name]
                if sorted(got) != sorted(names):
                    fail('%s package: fit lists models %r' % (what, got), 'c07:fit_model_set')
                for i, name in enumerate(got):
                    m = names.index(name)
                    av, sc, chi2 = float(info.av[i]), float(info.sc[i]), float(info.chi2[i])
                    reported_sc.setdefault(what, []).append(sc)
                    w = '%s package, source %s, model %s' % (what, src['name'], name)
                    if not pkg['apdep']:
                        ref = of.Ref2D(bands, [math.log10(refs[f['name']][m][0]) for f in filters], k,
                                       case['av_range'][0], case['av_range'][1])
                        if ref.singular or ref.cond > 1e10:
                            labels.add('singular_skipped')
                            continue
                        bad = of.check_fit_2d(ref, av, sc, chi2, float32=slack, what=w)
                    else:
                        bad = None
                        for g in grids:
                            ref = of.Ref3D(bands, [refs[f['name']][m] for f in filters], pkg['apertures'], case['theta'], k,
                                           case['av_range'][0], case['av_range'][1], g)
                            bad = c02mod.check_one(ref, av, sc, chi2, w, slack)
                            if bad is None or bad == 'skip':
                                bad = None
                                break
                    if bad is not None:
                        fail(bad[1], 'c07:fit_' + bad[0].split(':')[1])
            labels.add('fitted_' + what.replace(', filters reversed', '_reversed'))
        del fitters
        # "fits made from either, memory-mapped or not, agree": all variants must have used ONE distance grid. Every reported
        # scale is log10 of a grid distance, so the acceptable grids each variant is consistent with must intersect
        # (robust against near-ties between neighbouring distances and against single-precision storage).
        if pkg['apdep'] and len(grids) > 1:
            def consistent(vals, g):
                logs = [math.log10(x) for x in g]
                return all(min(abs(v - l) for l in logs) < 1e-9 for v in vals if v == v)
            fits = dict((what, [gi for gi, g in enumerate(grids) if consistent(vals, g)]) for what, vals in reported_sc.items())
            if all(fits.values()) and not set.intersection(*[set(v) for v in fits.values()]):
                fail('the variants of one package were fitted on different distance grids: %s (grid sizes %r)' % (
                    ', '.join('%s -> %r' % (w, [len(grids[gi]) for gi in v]) for w, v in sorted(fits.items())),
                    [len(g) for g in grids]), 'c07:formats_disagree_fit')
            labels.add('distance_grid_ambiguous_by_rounding')
        # ---- "memory-mapped or not, agree" also holds when the fitter is asked to drop resolved models: both fitters read the
        #      same cube, so they reject the same (model, distance) pairs; what remains differs by single-precision storage only
        src0 = case['sources'][0]
        rflags = [0 if f in (2, 3) else f for f in src0['flags']]   # (limit penalties jump, the bound below is for smooth terms)
        if pkg['apdep'] and nap > 1 and any(f in (1, 4) for f in rflags):
            rsrc = dict(src0, flags=rflags)
            res = {}
            for memmap in (False, True):
                with must_succeed('Fitter(remove_resolved=True, use_memmap=%r) on the cube package' % memmap), quiet():
                    rf_ = Fitter(fnames, aps, d2, extinction_law=law, av_range=list(case['av_range']), distance_range=dr,
                                 use_memmap=memmap, remove_resolved=True)
                    ri = rf_.fit(gen.source_object(rsrc))
                res[memmap] = dict((str(n_).strip(), (float(c_), float(s_))) for n_, c_, s_ in zip(ri.model_name, ri.chi2, ri.sc))
                del rf_
            W = sum(b[2] for b in of.transform_source(rsrc['flags'], rsrc['flux'], rsrc['err']))
            # single-precision storage moves a log10 flux by < 3e-8, and log10 itself is then evaluated in single precision
            # (1.2e-7 relative to |log10 flux|, cf. oracle_fit.float32_slack); the fit is a minimum over A_V and distance, so its
            # chi^2 moves by no more than the objective does
            lmax = max(abs(math.log10(v)) for f in filters for row in refs[f['name']] for v in row) + \
                2. * max(abs(math.log10(x)) for x in dk)
            delta = 4. * (3e-8 + 1.2e-7 * lmax)
            dropped = 0
            for name in names:
                (c1, s1), (c2, s2) = res[False][name], res[True][name]
                if not (math.isfinite(c1) and math.isfinite(c2)):
                    dropped += 1
                    if c1 != c2 and not (c1 != c1 and c2 != c2):
                        fail('remove_resolved=True, cube package, model %s: chi2 %r when the fluxes are held in memory, %r when '
                             'they are memory-mapped' % (name, c1, c2), 'c07:formats_disagree_fit')
                    continue
                big = max(abs(c1), abs(c2))
                tol = 2. * delta * math.sqrt(W * big) + W * delta ** 2 + 1e-9 * (1. + big)
                if not (abs(c1 - c2) <= tol):
                    fail('remove_resolved=True, cube package, source %s, model %s: chi2 %r (best distance 10^%r kpc) when the fluxes '
                         'are held in memory, %r (10^%r kpc) when they are memory-mapped; single-precision storage explains at '
                         'most %.3g' % (src0['name'], name, c1, s1, c2, s2, tol), 'c07:formats_disagree_fit')
            labels.add('remove_resolved_memmap_on_off')
            if dropped:
                labels.add('remove_resolved_drops_a_model_entirely')
        # ---- a filter added later in the same session: after fits were made and listed (the post-processing tools read the
        #      parameter table too), one more filter is convolved into each package; its file follows the same rules
        if case.get('late_filter') and last_info:
            from sedfitter import write_parameters, write_parameter_ranges, extract_parameters
            late = dict(filters[0], name='late_added')
            for d, fmt, what in ((d1, 'v1', 'per-file'), (d2, 'v2', 'cube')):
                if d not in last_info:
                    continue
                with must_succeed('%s on a fit of the %s package' % (case['late_filter'], what)), quiet():
                    if case['late_filter'] == 'write_parameters':
                        write_parameters(last_info[d], os.path.join(d, 'listing.txt'), select_format=('A', 0))
                    elif case['late_filter'] == 'write_parameter_ranges':
                        write_parameter_ranges(last_info[d], os.path.join(d, 'ranges.txt'), select_format=('A', 0))
                    else:
                        extract_parameters(input=last_info[d], output_prefix=os.path.join(d, 'extract_'), output_suffix='.txt')
                with must_succeed('convolve_model_dir (%s format, one more filter after %s)' % (what, case['late_filter'])), quiet():
                    convolve_model_dir(d, [convpkg.filter_object(late)])
                t0 = pkgio.read_convolved(os.path.join(d, 'convolved', filters[0]['name'] + '.fits'))
                t = pkgio.read_convolved(os.path.join(d, 'convolved', 'late_added.fits'))
                order = convpkg.table_order(pkg, fmt)
                if t['names'] != order:
                    fail('%s format, filter convolved after %s was used on a fit: rows %r, expected the %s order %r' % (
                        what, case['late_filter'], t['names'], 'parameter-table' if fmt == 'v1' else 'cube', order), 'c07:row_order')
                for row, name in enumerate(t['names']):
                    for p_ in range(nap):
                        if not (abs(t['flux'][row][p_] - t0['flux'][row][p_]) <= 1e-12 * abs(t0['flux'][row][p_])):
                            fail('%s format, the same filter convolved later under another name: row %s holds %r, the earlier '
                                 'file has %r' % (what, name, t['flux'][row][p_], t0['flux'][row][p_]), 'c07:row_holds_other_model')
            labels.add('late_filter_after_' + case['late_filter'])
    return labels, len(names) >= 2 and permuted


# ------------------------------------------------------------------------------------------ same distance grid in both formats

@st.composite
def grid_cases(draw):
    step = draw(st.sampled_from([0.02, 0.025, 0.05, 0.1, 0.25]))
    c = draw(gen.fit_case_3d(max_models=3, max_filters=3, max_sources=2, formats=('v1',),
                             setup_kwargs={'step': step, 'shapes': ('integer_ratio', 'typed_decade', 'typed_decade')}))
    c['ap_count_by_filter'] = None
    return c


def run_grid(case, ctx):
    """The same convolved fluxes as a per-file package and as a cube package (named filters), fitted over a distance range
    that is a whole number of steps up to rounding: both must use ONE distance grid ('fits made from either agree')."""
    import os
    labels = {'range_' + case['setup']['shape'], 'unit_' + case['setup']['unit']}
    dr = gen.distance_range_quantity(case['setup'])
    out = {}
    with ctx.tempdir() as d:
        for fmt in ('v1', 'v2name'):
            sub = os.path.join(d, fmt)
            os.mkdir(sub)
            c = dict(case, format=fmt, memmap=False, cube_unit='mJy', conv_unit='mJy')
            gen.build_package_3d(sub, c)
            with must_succeed('Fitter() on the %s package' % fmt), quiet():
                fitter = gen.make_fitter(sub, c, case['av_ranges'][0], distance_range=dr)
            res = []
            for src in case['sources']:
                with must_succeed('Fitter.fit'), quiet():
                    info = fitter.fit(gen.source_object(src))
                order = np.argsort([str(x) for x in info.model_name], kind='stable')
                res.append([(str(info.model_name[i]).strip(), float(info.av[i]), float(info.sc[i]), float(info.chi2[i])) for i in order])
            grid_attr = getattr(getattr(fitter, 'models', None), 'distances', None)
            out[fmt] = (res, None if grid_attr is None else [float(x) for x in np.asarray(getattr(grid_attr, 'value', grid_attr))])
            del fitter
    (r1, g1), (r2, g2) = out['v1'], out['v2name']
    if g1 is not None and g2 is not None and len(g1) != len(g2):
        fail('distance range %r %s, step %r: the per-file package is fitted on %d distances, the cube package on %d' % (
            list(dr.value), dr.unit, case['setup']['step'], len(g1), len(g2)), 'c07:formats_disagree_fit')
    for a, b in zip(r1, r2):
        for (n1, av1, sc1, ch1), (n2, av2, sc2, ch2) in zip(a, b):
            if n1 != n2:
                fail('the two formats list different models', 'c07:fit_model_set')
            if sc1 != sc1 or sc2 != sc2:
                continue
            if not (abs(sc1 - sc2) <= 1e-9) and not (abs(ch1 - ch2) <= 1e-6 * max(1., abs(ch1))):
                fail('distance range %r %s, step %r, model %s: per-file package gives scale %r (chi2 %r), cube package scale %r '
                     '(chi2 %r)' % (list(dr.value), dr.unit, case['setup']['step'], n1, sc1, ch1, sc2, ch2), 'c07:formats_disagree_fit')
    return labels, True


ENTRIES = {'formats': run_case, 'grid': run_grid}


def plan(ctx):
    ctx.run_given("formats", cases(), ctx.scale(15, 300), shrink=not ctx.quick)
    ctx.run_given("grid", grid_cases(), ctx.scale(25, 400), shrink=not ctx.quick)
