"""
C05 - selection tuples keep exactly the fits the syntax page promises.

* exhaustive: every chi^2 vector of length 0..5 over {0, 1, 1, 2.5, +inf, NaN} (9331 vectors), ranked by
  FitInfo.sort(), x every selector form (A; N 0..7; C/D/E/F on a threshold grid; n_data in {1,2,3,5}), thresholds
  verified at generation time to differ from every attained value of the statistic;
* Hypothesis vectors up to length 200, thresholds placed strictly between attained values;
* a rule-based state machine of keep() calls against a list model, with the two composition laws.
Reference predicate written from docs/select_syntax.rst with IEEE semantics (NaN and inf-inf are "not below").
"""
import math
import itertools

import os

import numpy as np
from hypothesis import strategies as st
from hypothesis.stateful import rule, initialize, precondition

from vlib.runner import Violation, fail, must_succeed, TracedMachine

PROPERTY_ID = 'C05'
LEVEL = 'exploration'
DESIGN_REF = 'DESIGN.md section 3, C05'
EXHAUSTIVE = True
EXHAUSTIVE_NOTE = ('all 9331 chi^2 vectors of length 0..5 over the 6-letter alphabet {0,1,1,2.5,inf,NaN} x all 89 selector '
                   'configurations are enumerated in both tiers; longer vectors and keep() histories are sampled')
RULE = ('Exhaustive entry "enum": one evaluation = one chi^2 vector (length 0..5 over {0,1,1,2.5,inf,NaN}) ranked by '
        'FitInfo.sort() and checked against every selector A / N(0..7) / C,D(8 thresholds) / E,F(8 thresholds x n_data in '
        '{1,2,3,5}); combinations whose threshold equals an attained statistic are dropped and counted. Entry "long": '
        'Hypothesis vectors of length 0..200 with ties/inf/NaN, thresholds strictly between attained values. Entry "huge": results of 9000..70000 fits (as large as real grids) with a threshold between two attained values. Entry '
        '"history": rule-based state machine of keep() calls on one result (interleaved with in-place edits of the source\'s '
        'flags) vs a Python list model, plus keep-twice and '
        'loose-then-tight laws. Non-trivial = length >= 2 and some selector keeps a proper non-empty subset, or the vector '
        'contains a tie / inf / NaN; for histories: >= 2 keep() calls of which one removed rows.')
RULE += (' ' + 'The history machine also writes the result to a fit file (save) and continues with the record read back (reload), several states of the same objects sharing one file.')
RULE += (' ' + 'The sources carry flag-4 log fluxes below, at and above 0 and placeholders in unused bands.')
ASSUMPTIONS = [
    "selectors are 2-tuples as on the syntax page; ('A', value) ignores value",
    'thresholds exactly equal to an attained value are excluded (the code uses <=, the page says "below")',
    'the ranking among tied / NaN rows is taken from FitInfo.sort() itself (any order of ties is a valid ranking)',
]

ALPHABET = [0., 1., 1., 2.5, float('inf'), float('nan')]
THRESHOLDS = [-0.5, 0.1, 0.4, 0.9, 1.4, 2.0, 3.0, 1e31]
NDATA = [1, 2, 3, 5]


# ------------------------------------------------------------------------------------------ building results

def make_source(n_data, extra_flags=(9, 0, 2, 3)):
    from sedfitter.source import Source
    flags = [1 if i % 2 == 0 else 4 for i in range(n_data)] + list(extra_flags)
    s = Source()
    s.name = 'src'
    s.x = 0.
    s.y = 0.
    s.valid = np.array(flags, dtype=int)
    # values of the kind each flag usually carries: log10 fluxes at, below and above 1 mJy for flag 4, placeholders for the
    # points that are not used
    fl4 = (-1.25, 0., 0.6)
    s.flux = np.array([fl4[(i // 2) % 3] if f == 4 else -999. if f == 9 else 0. if f == 0 else 1.5 for i, f in enumerate(flags)])
    s.error = np.array([0.5] * len(flags))
    return s


def make_info(chi2, n_data, with_fluxes=True, nfilt=3):
    """A ranked FitInfo whose rows carry identity in every per-fit array."""
    from sedfitter.fit_info import FitInfo
    n = len(chi2)
    info = FitInfo(make_source(n_data))
    info.chi2 = np.array(chi2, dtype=float)
    info.av = np.array([10. + i for i in range(n)], dtype=float)
    info.sc = np.array([-1. - 0.25 * i for i in range(n)], dtype=float)
    info.model_name = np.array(['model_%03d' % i for i in range(n)], dtype='U30')
    info.model_fluxes = np.array([[100. * i + j for j in range(nfilt)] for i in range(n)], dtype=float).reshape(n, nfilt) \
        if with_fluxes else None
    with must_succeed('FitInfo.sort'):
        info.sort()
    return info


def rows_of(info, what='result'):
    """-> list of row tuples; checks that all per-fit arrays are cut alike."""
    n = len(info.chi2)
    for key in ('av', 'sc', 'model_name', 'model_id'):
        arr = getattr(info, key)
        if arr is None or len(arr) != n:
            fail('%s: %s has length %s but chi2 has %d' % (what, key, None if arr is None else len(arr), n),
                 'c05:arrays_cut_differently')
    if info.model_fluxes is not None and len(info.model_fluxes) != n:
        fail('%s: model_fluxes has %d rows but chi2 has %d' % (what, len(info.model_fluxes), n),
             'c05:arrays_cut_differently')
    with must_succeed('n_fits'):
        nf = info.n_fits
    if nf != n:
        fail('%s: n_fits = %r but %d rows' % (what, nf, n), 'c05:n_fits')
    out = []
    for i in range(n):
        fl = None if info.model_fluxes is None else tuple(float(v) for v in info.model_fluxes[i])
        out.append((str(info.model_name[i]), int(info.model_id[i]), float(info.av[i]), float(info.sc[i]),
                    float(info.chi2[i]), fl))
    return out


def clone(info):
    from sedfitter.fit_info import FitInfo
    c = FitInfo(info.source)
    c.av = info.av.copy()
    c.sc = info.sc.copy()
    c.chi2 = info.chi2.copy()
    c.model_name = info.model_name.copy()
    c.model_id = info.model_id.copy()
    c.model_fluxes = None if info.model_fluxes is None else info.model_fluxes.copy()
    return c


def same_rows(a, b):
    if len(a) != len(b):
        return False
    for ra, rb in zip(a, b):
        for x, y in zip(ra, rb):
            if isinstance(x, float) and isinstance(y, float):
                if not (x == y or (x != x and y != y)):
                    return False
            elif x != y:
                return False
    return True


# ------------------------------------------------------------------------------------------ reference predicate

def statistic(form, chi2, best, n_data):
    if form == 'C':
        return chi2
    if form == 'D':
        return chi2 - best
    if form == 'E':
        return chi2 / n_data
    if form == 'F':
        return (chi2 - best) / n_data
    raise ValueError(form)


def reference_keep(rows, sel, n_data):
    """-> (kept rows, ambiguous?)  written from select_syntax.rst"""
    form, value = sel
    if form == 'A':
        return list(rows), False
    if form == 'N':
        return list(rows[:min(int(value), len(rows))]), False
    if not rows:
        return [], False
    best = rows[0][4]
    kept = []
    amb = False
    for r in rows:
        s = statistic(form, r[4], best, n_data)
        if s == value:
            amb = True
        if s < value:  # NaN and inf-inf compare False: "not below"
            kept.append(r)
    return kept, amb


def check_keep(info, rows, sel, n_data, what):
    """apply keep(sel) to a clone of info and compare with the reference; returns the kept rows"""
    expect, amb = reference_keep(rows, sel, n_data)
    if amb:
        return None
    c = clone(info)
    with must_succeed('keep(%r)' % (sel,)):
        c.keep(tuple(sel))
    got = rows_of(c, '%s after keep(%r)' % (what, sel))
    if not same_rows(got, expect):
        fail('%s (n_data=%d): keep(%r) kept %d fits %r, the syntax page promises %d: %r' % (
            what, n_data, sel, len(got), [g[0] + ':%r' % g[4] for g in got], len(expect),
            [g[0] + ':%r' % g[4] for g in expect]), 'c05:wrong_selection:' + sel[0])
    if not same_rows(got, rows[:len(got)]):
        fail('%s: keep(%r) result is not a prefix of the ranking' % (what, sel), 'c05:not_prefix')
    return got


def all_selectors():
    out = [(['A', None], 2)]
    for n in range(0, 8):
        out.append((['N', n], 2))
    for form in 'CD':
        for t in THRESHOLDS:
            out.append(([form, t], 2))
    for form in 'EF':
        for t in THRESHOLDS:
            for nd in NDATA:
                out.append(([form, t], nd))
    return out


SELECTORS = all_selectors()


def run_enum(case, ctx):
    chi2 = [float(v) for v in case['chi2']]
    labels = set()
    sels = SELECTORS if case.get('selectors') is None else [(s[:2], s[2]) for s in case['selectors']]
    infos = {}
    proper = False
    nsel = 0
    for sel, nd in sels:
        key = (nd, case.get('with_fluxes', True))
        if key not in infos:
            info = make_info(chi2, nd, with_fluxes=case.get('with_fluxes', True))
            rows = rows_of(info, 'ranked result')
            if sorted(r[0] for r in rows) != ['model_%03d' % i for i in range(len(chi2))]:
                fail('sort() lost or duplicated rows: %r' % [r[0] for r in rows], 'c05:sort_rows')
            infos[key] = (info, rows)
        info, rows = infos[key]
        try:
            got = check_keep(info, rows, sel, nd, 'chi2 %r' % (chi2,))
        except Violation as v:
            red = dict(case)
            red['selectors'] = [[sel[0], sel[1], nd]]
            v.case_override = red
            raise
        if got is None:
            ctx.labels['dropped_threshold_equals_attained'] += 1
            continue
        nsel += 1
        if 0 < len(got) < len(rows):
            proper = True
    ctx.labels['selector_evaluations'] += nsel
    special = any(v != v or v == float('inf') for v in chi2) or len(set(chi2)) < len(chi2)
    if special:
        labels.add('has_tie_inf_nan')
    labels.add('len=%d' % len(chi2))
    return labels, (len(chi2) >= 2 and proper) or (special and len(chi2) >= 1)


# ------------------------------------------------------------------------------------------ long vectors

chi_values = st.one_of(st.floats(0., 50., allow_nan=False), st.sampled_from([0., 1., 1., 2.5, 7.25]),
                       st.sampled_from([float('inf'), float('nan'), 1e30, 2e30]))


@st.composite
def long_case(draw):
    n = draw(st.one_of(st.integers(0, 12), st.integers(0, 200)))
    chi2 = draw(st.lists(chi_values, min_size=n, max_size=n))
    nd = draw(st.integers(1, 12))
    sels = []
    for _ in range(draw(st.integers(1, 6))):
        form = draw(st.sampled_from('ANCDEF'))
        if form == 'A':
            sels.append(['A', draw(st.sampled_from([None, 0, 3.5]))])
        elif form == 'N':
            sels.append(['N', draw(st.one_of(st.integers(0, n + 3), st.sampled_from([1, 2, 3.0])))])
        else:
            # a threshold strictly between two attained values of the statistic (or beyond both ends)
            finite = sorted(set(v for v in chi2 if v == v and v != float('inf')))
            best = min(finite) if finite else 0.
            stats = sorted(set(statistic(form, v, best, nd) for v in finite))
            pos = draw(st.integers(0, len(stats)))
            lo = stats[pos - 1] if pos > 0 else (stats[0] - 2. if stats else -1.)
            hi = stats[pos] if pos < len(stats) else (stats[-1] + 2. if stats else 1.)
            t = lo + (hi - lo) * draw(st.sampled_from([0.5, 0.25, 0.75]))
            sels.append([form, t])
    return {'chi2': chi2, 'n_data': nd, 'selectors': sels, 'with_fluxes': draw(st.booleans())}


def run_long(case, ctx):
    chi2 = [float(v) for v in case['chi2']]
    nd = case['n_data']
    info = make_info(chi2, nd, with_fluxes=case['with_fluxes'])
    rows = rows_of(info, 'ranked result')
    labels = {'len>12' if len(chi2) > 12 else 'len<=12'}
    proper = False
    for sel in case['selectors']:
        got = check_keep(info, rows, sel, nd, 'vector of %d chi2' % len(chi2))
        if got is None:
            labels.add('dropped_threshold_equals_attained')
            continue
        labels.add('form_' + sel[0])
        if 0 < len(got) < len(rows):
            proper = True
    return labels, proper


# ------------------------------------------------------------------------------------------ histories

selector_st = st.one_of(
    st.tuples(st.just('A'), st.sampled_from([None, 1])),
    st.tuples(st.just('N'), st.integers(0, 9)),
    st.tuples(st.sampled_from('CDEF'), st.sampled_from([-0.5, 0.1, 0.3, 0.45, 0.9, 1.4, 2.0, 3.3, 7.7, 1e31])),
).map(list)


class KeepMachine(TracedMachine()):
    """keep() calls on ONE result object; model = list of row tuples filtered by the reference predicate."""

    def __init__(self):
        super(KeepMachine, self).__init__()
        self.info = None
        self.n_removed_steps = 0
        self.n_keeps = 0

    @initialize(chi2=st.lists(st.sampled_from([0., 0.2, 1., 1., 2.5, 4., 4., 9.5, float('inf'), float('nan')]), max_size=9),
                n_data=st.sampled_from(NDATA), with_fluxes=st.booleans())
    def setup(self, chi2, n_data, with_fluxes):
        self.log('setup', chi2=chi2, n_data=n_data, with_fluxes=with_fluxes)
        self.guard(self._setup, chi2, n_data, with_fluxes)

    def _setup(self, chi2, n_data, with_fluxes):
        self.n_data = n_data
        self.info = make_info(chi2, n_data, with_fluxes=with_fluxes)
        if int(self.info.source.n_data) != n_data:
            fail('n_data is %r for flags %r' % (self.info.source.n_data, list(self.info.source.valid)), 'c05:n_data')
        self.model = rows_of(self.info, 'ranked result')
        self.flags = [int(v) for v in self.info.source.valid]

    def _usable(self, sel):
        if sel[0] in 'EF' and self.n_data == 0:
            return False  # chi^2 per data point is undefined without data points
        return not reference_keep(self.model, sel, self.n_data)[1]

    @precondition(lambda self: self.info is not None and not self._dead)
    @rule(j=st.integers(0, 8), value=st.sampled_from([0, 1, 2, 3, 4, 9]))
    def edit_flag(self, j, value):
        """the user re-flags a band of the source IN PLACE between two selections (drops a point, turns it into a limit,
        promotes a plot-only point): n_data is whatever the flags say at the time of the selection"""
        self.log('edit_flag', j=j, value=value)
        self.guard(self._edit_flag, j, value)

    def _edit_flag(self, j, value):
        j = j % len(self.flags)
        with must_succeed('editing source.valid in place'):
            self.info.source.valid[j] = value
        self.flags[j] = value
        self.n_data = sum(1 for f in self.flags if f in (1, 4))
        self.n_edits = getattr(self, 'n_edits', 0) + 1
        got = int(self.info.source.n_data)
        if got != self.n_data:
            fail('after re-flagging band %d as %d the flags are %r but n_data is %d (it counts flags 1 and 4 only: %d)' % (
                j, value, self.flags, got, self.n_data), 'c05:n_data_stale')

    @precondition(lambda self: self.info is not None and not self._dead)
    @rule(sel=selector_st)
    def keep(self, sel):
        self.log('keep', sel=sel)
        self.guard(self._keep, sel)

    def _keep(self, sel):
        if not self._usable(sel):
            return
        expect, _ = reference_keep(self.model, sel, self.n_data)
        with must_succeed('keep(%r)' % (sel,)):
            self.info.keep(tuple(sel))
        got = rows_of(self.info, 'after keep(%r)' % (sel,))
        if not same_rows(got, expect):
            fail('history: keep(%r) on %d ranked fits kept %r, expected %r' % (
                sel, len(self.model), [g[0] for g in got], [g[0] for g in expect]), 'c05:wrong_selection:' + sel[0])
        self.n_keeps += 1
        if len(expect) < len(self.model):
            self.n_removed_steps += 1
        self.model = expect

    @precondition(lambda self: self.info is not None and not self._dead)
    @rule(sel=selector_st)
    def keep_twice(self, sel):
        self.log('keep_twice', sel=sel)
        self.guard(self._keep_twice, sel)

    def _keep_twice(self, sel):
        if not self._usable(sel):
            return
        a = clone(self.info)
        with must_succeed('keep(%r)' % (sel,)):
            a.keep(tuple(sel))
        once = rows_of(a, 'keep once')
        if not self._usable_on(once, sel):
            return
        with must_succeed('second keep(%r)' % (sel,)):
            a.keep(tuple(sel))
        twice = rows_of(a, 'keep twice')
        if not same_rows(once, twice):
            fail('selecting twice with %r differs from selecting once: %r vs %r' % (
                sel, [g[0] for g in twice], [g[0] for g in once]), 'c05:not_idempotent')

    def _usable_on(self, rows, sel):
        if sel[0] in 'EF' and self.n_data == 0:
            return False
        return not reference_keep(rows, sel, self.n_data)[1]

    @precondition(lambda self: self.info is not None and not self._dead)
    @rule(loose=selector_st, tight=selector_st)
    def loose_then_tight(self, loose, tight):
        self.log('loose_then_tight', loose=loose, tight=tight)
        self.guard(self._loose_then_tight, loose, tight)

    def _loose_then_tight(self, loose, tight):
        if not (self._usable(loose) and self._usable(tight)):
            return
        kl, _ = reference_keep(self.model, loose, self.n_data)
        kt, _ = reference_keep(self.model, tight, self.n_data)
        if len(kt) > len(kl):
            return  # `loose` is not looser than `tight` here
        if not self._usable_on(kl, tight):
            return
        a = clone(self.info)
        b = clone(self.info)
        with must_succeed('keep(%r); keep(%r)' % (loose, tight)):
            a.keep(tuple(loose))
            a.keep(tuple(tight))
        with must_succeed('keep(%r)' % (tight,)):
            b.keep(tuple(tight))
        ra, rb = rows_of(a, 'loose then tight'), rows_of(b, 'tight')
        if not same_rows(ra, rb):
            fail('keep(%r) then keep(%r) gives %r, keep(%r) alone gives %r' % (
                loose, tight, [g[0] for g in ra], tight, [g[0] for g in rb]), 'c05:loose_then_tight')

    # ---- the object-oriented interface writes results to a fit file and post-processing reads them back: the selection
    #      promises hold for a result that went through a file shared with earlier states of the same objects
    @precondition(lambda self: self.info is not None and not self._dead)
    @rule()
    def save(self):
        self.log('save')
        self.guard(self._save)

    def _save(self):
        import tempfile
        from sedfitter.fit_info import FitInfoFile
        from vlib import fitinfo_gen as fg
        if getattr(self, 'tmp', None) is None:
            self.tmp = tempfile.mkdtemp(prefix='c05-')
            self.meta = fg.Meta(os.path.join(self.tmp, 'models'), [1., 2., 3.], [3., 3., 3.],
                                {'wav': [0.1, 0.55, 10.], 'chi': [3., 1., 0.1]})
            self.fout, self.saved, self.nfile = None, [], 0
        if self.fout is None:
            self.nfile += 1
            self.path = os.path.join(self.tmp, 'out%d.fitinfo' % self.nfile)
            with must_succeed('opening a fit file for writing'):
                self.fout = FitInfoFile(self.path, 'w')
            self.saved = []
        self.info.meta = self.meta
        with must_succeed('FitInfoFile.write'):
            self.fout.write(self.info)
        self.saved.append((list(self.model), list(self.flags), self.n_data))

    @precondition(lambda self: self.info is not None and not self._dead and getattr(self, 'fout', None) is not None)
    @rule()
    def reload(self):
        self.log('reload')
        self.guard(self._reload)

    def _reload(self):
        from sedfitter.fit_info import FitInfoFile
        with must_succeed('closing and re-reading the fit file'):
            self.fout.close()
            fin = FitInfoFile(self.path, 'r')
            recs = list(fin)
            fin.close()
        self.fout = None
        if len(recs) != len(self.saved):
            fail('%d results were written to one file, %d read back' % (len(self.saved), len(recs)), 'c05:file_record_count')
        for i, (rec, (rows, flags, n_data)) in enumerate(zip(recs, self.saved)):
            got_flags = [int(v) for v in rec.source.valid]
            if got_flags != flags or int(rec.source.n_data) != n_data:
                fail('result %d of %d read back from the file: source flags %r (n_data %d), but it was written with flags %r '
                     '(n_data %d): per-data-point selections would keep the wrong fits' % (
                         i + 1, len(recs), got_flags, int(rec.source.n_data), flags, n_data), 'c05:n_data_after_file')
            if not same_rows(rows_of(rec, 'result read back'), rows):
                fail('result %d of %d read back from the file lists %r, it was written with %r' % (
                    i + 1, len(recs), [g[0] for g in rows_of(rec)], [g[0] for g in rows]), 'c05:rows_after_file')
        # go on with the last record as read back
        self.info = recs[-1]
        self.model, self.flags, self.n_data = list(self.saved[-1][0]), list(self.saved[-1][1]), self.saved[-1][2]
        self.n_reloads = getattr(self, 'n_reloads', 0) + 1

    def cleanup(self):
        import shutil
        if getattr(self, 'fout', None) is not None:
            try:
                self.fout.close()
            except Exception:  # noqa
                pass
        if getattr(self, 'tmp', None):
            shutil.rmtree(self.tmp, ignore_errors=True)

    def finish(self):
        labels = {'history_keeps=%d' % min(self.n_keeps, 4)}
        if getattr(self, 'n_reloads', 0):
            labels.add('result_went_through_a_file')
        if getattr(self, 'n_edits', 0):
            labels.add('flags_edited_in_place')
        return labels, self.n_keeps >= 2 and self.n_removed_steps >= 1


@st.composite
def huge_case(draw):
    n = draw(st.sampled_from([9000, 12000, 25000, 70000]))
    step = draw(st.sampled_from([0.001, 0.01, 0.5]))
    ninf = draw(st.sampled_from([0, 0, 3, 500]))
    form = draw(st.sampled_from('CDEFN'))
    frac = draw(st.sampled_from([0.03, 0.45, 0.5, 0.9, 0.999]))
    return {'n': n, 'step': step, 'ninf': ninf, 'form': form, 'frac': frac, 'n_data': draw(st.sampled_from([1, 3, 7])),
            'best': draw(st.sampled_from([0., 2.5, 1e-3]))}


def run_huge(case, ctx):
    """results as large as a real model grid; reference evaluated with plain numpy comparisons"""
    from sedfitter.fit_info import FitInfo
    n, nd = case['n'], case['n_data']
    chi2 = case['best'] + case['step'] * np.arange(n - case['ninf'], dtype=float) ** 1.0
    chi2 = np.concatenate([chi2, np.full(case['ninf'], np.inf)])
    # package order is scrambled; sort() ranks
    order = (np.arange(n) * 7919) % n if n % 7919 else np.arange(n)[::-1]
    info = FitInfo(make_source(nd))
    info.chi2 = chi2[order].copy()
    info.av = np.arange(n, dtype=float)[order]
    info.sc = -np.arange(n, dtype=float)[order]
    info.model_name = np.array(['m%06d' % i for i in range(n)])[order]
    info.model_fluxes = None
    with must_succeed('FitInfo.sort'):
        info.sort()
    ranked = info.chi2.copy()
    if np.any(np.diff(ranked[np.isfinite(ranked)]) < 0):
        fail('sort() of %d fits is not non-decreasing' % n, 'c05:sort_rows')
    form = case['form']
    k = int(case['frac'] * (n - case['ninf']))
    k = min(max(k, 1), n - case['ninf'] - 1)
    if form == 'N':
        sel = ['N', k]
        expect = k
    else:
        stat = {'C': ranked, 'D': ranked - ranked[0], 'E': ranked / nd, 'F': (ranked - ranked[0]) / nd}[form]
        thr = 0.5 * (stat[k - 1] + stat[k])          # strictly between two attained values
        if not (stat[k - 1] < thr < stat[k]):
            return {'huge_degenerate_threshold'}, False
        sel = [form, float(thr)]
        expect = int(np.sum(stat < thr))
    with must_succeed('keep(%r) on %d fits' % (sel, n)):
        info.keep(tuple(sel))
    if len(info.chi2) != expect or len(info.av) != expect or len(info.model_name) != expect or info.n_fits != expect:
        fail('%d ranked fits, keep(%r) (n_data=%d) kept %d, the syntax page promises %d' % (n, sel, nd, len(info.chi2), expect),
             'c05:wrong_selection:' + form)
    if not np.array_equal(info.chi2, ranked[:expect]) or not np.array_equal(info.av[:3], info.av[:3]):
        fail('keep(%r) did not keep a prefix of the ranking' % (sel,), 'c05:not_prefix')
    return {'huge_n=%d' % n, 'huge_form_' + form}, True


ENTRIES = {'enum': run_enum, 'long': run_long, 'huge': run_huge}
MACHINES = {'history': KeepMachine}


def enum_cases():
    for n in range(0, 6):
        for vec in itertools.product(ALPHABET, repeat=n):
            yield {'chi2': list(vec), 'selectors': None, 'with_fluxes': (len(vec) + int(sum(1 for v in vec if v == 1.))) % 2 == 0}


def plan(ctx):
    ctx.run_cases('enum', ctx.mine(enum_cases()))
    ctx.run_given('long', long_case(), ctx.scale(150, 3000))
    ctx.run_given('huge', huge_case(), ctx.scale(6, 60))
    ctx.run_machine('history', ctx.scale(60, 1200), ctx.scale(12, 30))
