"""
C16 - monochromatic convolution emits every in-range wavelength at any memory limit.

For generated per-file packages EVERY chunk size 1..n_wav (via max_ram) x EVERY window whose ends lie between or on
tabulated wavelengths (and the default infinite window) is enumerated.  Oracle: set of convolved/MOnnn.fits files ==
wavelengths inside the window; each file (independent reader) holds each model's flux and error at that wavelength per
aperture in parameter-table order; the returned table names exactly those files; identical across chunk sizes.
Cube part: a wavelength given instead of a filter name selects the slice at the nearest tabulated wavelength.
"""
import os
import math
import shutil
import itertools

import numpy as np
from hypothesis import strategies as st

from vlib import gen, pkgio, convpkg
from vlib import oracle_misc as om
from vlib.runner import Violation, fail, must_succeed, quiet

PROPERTY_ID = 'C16'
LEVEL = 'exploration'
DESIGN_REF = 'DESIGN.md section 3, C16'
EXHAUSTIVE = True
EXHAUSTIVE_NOTE = ('per generated package every chunk size 1..n_wav and every window (ends below / on / between / above the '
                   'tabulated wavelengths, plus the default) is enumerated; n_wav 2..4 in the quick tier, 2..7 in the thorough '
                   'tier; package contents are sampled')
RULE = ('Hypothesis generates per-file packages (n_wav 2..4 quick / 2..7 thorough, 1..3 apertures, 1..4 models, permuted '
        'parameter table, either storage order); for each, all chunk sizes x all windows are enumerated (runs counts them). '
        'Entry "cube": cube packages fitted with wavelength "filters" requested at / near / exactly between tabulated '
        'wavelengths. Non-trivial (mono) = package with >= 3 wavelengths and >= 2 models (chunk sizes that do not divide the '
        'window and single-wavelength windows then occur); (cube) = a requested wavelength that is not tabulated.')
RULE += (' ' + 'Relation: a tabulated wavelength lying exactly on a window end is emitted for all such windows or for none (a window that is refused emits nothing).')
RULE += (' ' + 'The window ends are handed over as quantities in micron, nm, mm, cm or Angstrom.')
RULE += (' ' + 'History: the two halves of the spectrum are convolved by two successive windowed calls into the same directory.')
ASSUMPTIONS = [
    'a wavelength exactly on a window end may be present or absent (docstring says above/below, the property says inside)',
    'for a window that holds no tabulated wavelength an exception is accepted, but no file may be written',
    'file numbering is not prescribed: files are identified by their FILTWAV and by the returned table',
    'cube part: with av_range [0, 0] the fit depends only on the selected slice; ties between two tabulated wavelengths accept either',
]


@st.composite
def mono_cases(draw, max_wav):
    nw = draw(st.sampled_from(list(range(max_wav, 1, -1))))
    pkg = draw(convpkg.abstract_packages(max_models=4, max_ap=3, min_wav=nw, max_wav=nw))
    pkg['cube_dtype'] = 'f8'
    # the unit the window ends are handed over in (the arguments are astropy quantities; the default is typed in micron)
    return {'pkg': pkg, 'win_unit': draw(st.sampled_from(['um', 'um', 'nm', 'mm', 'AA', 'cm']))}


WIN_UNITS = {'um': ('micron', 1.), 'nm': ('nm', 1e3), 'mm': ('mm', 1e-3), 'AA': ('Angstrom', 1e4), 'cm': ('cm', 1e-4)}


def window_end(value_um, win_unit):
    """(quantity in win_unit, whether it is exactly value_um micron once astropy converts it back)"""
    from astropy import units as u
    name, factor = WIN_UNITS[win_unit]
    q = (value_um * factor) * u.Unit(name)
    return q, float(q.to(u.micron).value) == value_um


def windows(wav):
    """all (lo, hi) with ends below / on / between / above the tabulated wavelengths, lo <= hi, plus the default"""
    pts = [wav[0] * 0.5]
    for i, w in enumerate(wav):
        pts.append(w)
        pts.append(math.sqrt(w * wav[i + 1]) if i + 1 < len(wav) else w * 2.)
    out = [(None, None)]
    for i, lo in enumerate(pts):
        for hi in pts[i:]:
            out.append((lo, hi))
        out.append((lo, None))
    for hi in pts:
        out.append((None, hi))
    return out


def run_mono(case, ctx):
    from astropy import units as u
    from sedfitter.convolve import convolve_model_dir_monochromatic
    pkg = case['pkg']
    wav = pkg['wav']
    names = pkg['names']
    nw, nm = len(wav), len(names)
    nap = 1 if pkg['apertures'] is None else len(pkg['apertures'])
    order = convpkg.table_order(pkg, 'v1')
    labels = {'n_wav=%d' % nw, 'n_ap=%d' % nap, 'storage_' + pkg['storage']}
    labels.add('sed_layout_' + pkg.get('sed_layout', 'flat'))
    labels.add('window_unit_' + case.get('win_unit', 'um'))
    if pkg.get('par_gz'):
        labels.add('parameters.fits.gz')
    todo = case.get('only')
    nruns = 0
    with ctx.tempdir() as d:
        convpkg.emit(pkg, d, 'v1')
        wins = windows(wav) if todo is None else [tuple(todo['window'])]
        chunks = range(1, nw + 1) if todo is None else [todo['chunk']]
        # whether a wavelength that lies exactly ON a window end counts as inside is left open by the statement, but it must
        # be decided the same way for every tabulated wavelength: end kind -> {included?: example window}
        on_end = {'lower': {}, 'upper': {}}
        if todo is not None and todo.get('also'):
            wins = wins + [tuple(todo['also'])]
        for (lo, hi) in wins:
            inside = [w for w in wav if (lo is None or w > lo) and (hi is None or w < hi)]
            allowed = [w for w in wav if (lo is None or w >= lo) and (hi is None or w <= hi)]
            reference_files = None
            for chunk in chunks:
                nruns += 1
                cdir = os.path.join(d, 'convolved')
                if os.path.isdir(cdir):
                    shutil.rmtree(cdir)
                max_ram = (chunk + 0.5) * 8. * nm * nap / 1024. ** 3
                kw = {'max_ram': max_ram}
                wunit = case.get('win_unit', 'um')
                exact = {'lower': True, 'upper': True}
                if lo is not None:
                    kw['wav_min'], exact['lower'] = window_end(lo, wunit)
                if hi is not None:
                    kw['wav_max'], exact['upper'] = window_end(hi, wunit)
                what = 'window [%s, %s] micron (given in %s), chunk size %d, wavelengths %r' % (lo, hi, WIN_UNITS[wunit][0], chunk, wav)

                def note_ends(got):
                    # a tabulated wavelength exactly ON a window end: emitted for every such window, or for none
                    for kind, end in (('lower', lo), ('upper', hi)):
                        if end is not None and end in wav and (lo != hi) and exact[kind]:
                            seen = on_end[kind]
                            seen.setdefault(end in got, (lo, hi))
                            if len(seen) == 2:
                                v = Violation('a tabulated wavelength lying exactly on the %s end of the window is emitted for the '
                                              'window %r but not for the window %r (wavelengths %r, chunk size %d): whichever way '
                                              '"inside" is read, one of the two is wrong' % (kind, seen[True], seen[False], wav, chunk),
                                              'c16:window_end_inconsistent')
                                red = dict(case)
                                red['only'] = {'window': list(seen[True]), 'also': list(seen[False]), 'chunk': chunk}
                                v.case_override = red
                                raise v
                try:
                    try:
                        with quiet():
                            table = convolve_model_dir_monochromatic(d, **kw)
                    except Exception as exc:  # noqa
                        if not inside:
                            written = os.listdir(cdir) if os.path.isdir(cdir) else []
                            if written and not allowed:
                                fail('%s: raised %s but wrote %r' % (what, type(exc).__name__, written), 'c16:files_for_empty_window')
                            labels.add('empty_window_raises')
                            if not written:
                                note_ends({})   # a refusal emits nothing: that also decides the ends lying on a node
                            continue
                        fail('%s: raised %s: %s' % (what, type(exc).__name__, exc), 'c16:raises:' + type(exc).__name__)
                    files = sorted(f for f in os.listdir(cdir)) if os.path.isdir(cdir) else []
                    got = {}
                    for fn in files:
                        t = pkgio.read_convolved(os.path.join(cdir, fn))
                        lam = t['filtwav']
                        match = [w for w in wav if abs(w - lam) <= 1e-9 * w]
                        if not match:
                            fail('%s: %s has FILTWAV %r which is not a tabulated wavelength' % (what, fn, lam), 'c16:unknown_wavelength')
                        if match[0] in got:
                            fail('%s: two files for wavelength %r' % (what, match[0]), 'c16:duplicate_wavelength')
                        got[match[0]] = (fn, t)
                    missing = [w for w in inside if w not in got]
                    extra = [w for w in got if w not in allowed]
                    note_ends(got)
                    if missing:
                        fail('%s: no file for wavelength(s) %r inside the window (files written for %r)' % (
                            what, missing, sorted(got)), 'c16:wavelength_missing')
                    if extra:
                        fail('%s: file(s) for wavelength(s) %r outside the window' % (what, extra), 'c16:wavelength_outside_window')
                    for w, (fn, t) in got.items():
                        iw = wav.index(w)
                        if t['names'] != order:
                            fail('%s: %s rows %r, parameter-table order is %r' % (what, fn, t['names'], order), 'c16:row_order')
                        aidx = convpkg.stored_ap_index(pkg)
                        if pkg['apertures'] is not None:
                            if t['apertures'] is None or len(t['apertures']) != nap or \
                                    any(not (abs(a - pkg['apertures'][aidx[p_]]) <= 1e-12 * a) for p_, a in enumerate(t['apertures'])):
                                fail('%s: %s apertures %r' % (what, fn, t['apertures']), 'c16:apertures')
                        for row, name in enumerate(t['names']):
                            m = names.index(name)
                            for p_ in range(nap):
                                a = aidx[p_]
                                wf, we = pkg['flux'][m][a][iw], pkg['err'][m][a][iw]
                                if not (abs(t['flux'][row][p_] - wf) <= 1e-12 * abs(wf)) or not (abs(t['err'][row][p_] - we) <= 1e-12 * abs(we)):
                                    fail('%s: %s row %s aperture %d holds %r +- %r, the SED of %s at %r micron has %r +- %r' % (
                                        what, fn, name, a, t['flux'][row][p_], t['err'][row][p_], name, w, wf, we), 'c16:wrong_cell')
                    # the returned table names exactly those files
                    tw = [float(x) for x in u.Quantity(table['wav']).to(u.micron).value] if hasattr(table['wav'], 'unit') and table['wav'].unit is not None \
                        else [float(x) for x in table['wav']]
                    tf = [x.decode() if isinstance(x, bytes) else str(x) for x in table['filter']]
                    named = dict((f.strip(), w) for f, w in zip(tf, tw) if f.strip())
                    if sorted(named) != sorted(fn[:-5] for fn in files):
                        fail('%s: returned table names %r, files written %r' % (what, sorted(named), files), 'c16:table_names')
                    for w, (fn, t) in got.items():
                        if not (abs(named[fn[:-5]] - w) <= 1e-9 * w):
                            fail('%s: returned table maps %s to %r micron, the file holds %r' % (what, fn, named[fn[:-5]], w), 'c16:table_wavelength')
                    summary = sorted((fn, round(w, 9)) for w, (fn, t) in got.items() if w in inside)
                    if reference_files is None:
                        reference_files = (chunk, summary)
                    elif summary != reference_files[1]:
                        fail('%s: files for the wavelengths inside the window differ from chunk size %d: %r vs %r' % (
                            what, reference_files[0], summary, reference_files[1]), 'c16:chunk_dependent')
                except Violation as v:
                    if getattr(v, 'case_override', None) is None:
                        red = dict(case)
                        red['only'] = {'window': [lo, hi], 'chunk': chunk}
                        v.case_override = red
                    raise
                if len(inside) == 1:
                    labels.add('single_wavelength_window')
                if inside and len(inside) % chunk:
                    labels.add('chunk_does_not_divide_window')
        # the parameter table is rewritten with its rows in another order (same directory, same process): the next run
        # must follow the NEW table
        if todo is None and nm >= 2:
            perm2 = list(pkg['perm'][1:]) + [pkg['perm'][0]]
            pkgio.write_parameters(d, names, pkg['params'], order=perm2, gz=bool(pkg.get('par_gz')))
            cdir = os.path.join(d, 'convolved')
            if os.path.isdir(cdir):
                shutil.rmtree(cdir)
            with must_succeed('convolve_model_dir_monochromatic after the parameter table was re-ordered'), quiet():
                convolve_model_dir_monochromatic(d)
            order2 = [names[i] for i in perm2]
            for fn in sorted(os.listdir(cdir)):
                t = pkgio.read_convolved(os.path.join(cdir, fn))
                if t['names'] != order2:
                    fail('after parameters.fits was rewritten with rows %r, %s still has rows %r' % (order2, fn, t['names']),
                         'c16:stale_table_order')
            labels.add('table_reordered_in_place')
            nruns += 1
        # a large grid is convolved window by window (one job per part of the spectrum) into the same directory: each call
        # writes the files of its own window, whatever the earlier calls left there
        if todo is None and nw >= 2:
            cdir = os.path.join(d, 'convolved')
            if os.path.isdir(cdir):
                shutil.rmtree(cdir)
            mid = math.sqrt(wav[nw // 2 - 1] * wav[nw // 2])
            for kw2, part in (({'wav_min': mid * u.micron}, 'upper'), ({'wav_max': mid * u.micron}, 'lower')):
                with must_succeed('convolve_model_dir_monochromatic for the %s part of the spectrum (split at %r micron) into a '
                                  'directory holding the files of the other part' % (part, mid)), quiet():
                    convolve_model_dir_monochromatic(d, **kw2)
            have = sorted(pkgio.read_convolved(os.path.join(cdir, fn))['filtwav'] for fn in os.listdir(cdir))
            if len(have) != nw or any(not (abs(a - b) <= 1e-9 * b) for a, b in zip(have, sorted(wav))):
                fail('two calls for the two parts of the spectrum (split at %r micron) left files for %r, the SEDs hold %r' % (
                    mid, have, sorted(wav)), 'c16:wavelength_missing')
            labels.add('window_by_window_into_one_directory')
            nruns += 2
    ctx.labels['runs'] += nruns
    return labels, nw >= 3 and nm >= 2


# ------------------------------------------------------------------------------------------ cube part

@st.composite
def cube_cases(draw):
    nw = draw(st.integers(2, 9))
    nm = draw(st.integers(1, 5))
    wav = draw(gen.increasing(nw, 0.3, 300., 1.1))
    flux = [[draw(gen.logfloat(1e-2, 1e3)) * (1. + 0.13 * w + 0.7 * m) for w in range(nw)] for m in range(nm)]
    nf = draw(st.integers(2, min(5, nw)))
    which = draw(st.permutations(list(range(nw))))[:nf]
    req = []
    for i in which:
        kind = draw(st.sampled_from(['exact', 'near', 'near', 'midpoint', 'outside']))
        lo = wav[i - 1] if i > 0 else None
        hi = wav[i + 1] if i + 1 < nw else None
        if kind == 'exact':
            req.append([wav[i], [i]])
        elif kind == 'near':
            t = draw(st.floats(-0.4, 0.4, allow_nan=False))
            gap = (wav[i] - lo) if (t < 0 and lo) else ((hi - wav[i]) if (t >= 0 and hi) else wav[i] * 0.2)
            req.append([wav[i] + t * gap, [i]])
        elif kind == 'midpoint' and hi is not None:
            req.append([0.5 * (wav[i] + hi), [i, i + 1]])
        else:
            req.append([wav[0] * 0.7, [0]] if i == 0 else ([wav[-1] * 1.5, [nw - 1]] if i == nw - 1 else [wav[i], [i]]))
    return {'wav': wav, 'flux': flux, 'requests': req, 'storage': draw(st.sampled_from(['asc', 'desc'])),
            'memmap': draw(st.booleans()), 'src_flux': [draw(gen.logfloat(1e-2, 1e3)) for _ in range(nf)],
            'src_rel': [draw(gen.logfloat(1e-2, 0.5)) for _ in range(nf)],
            'unit': draw(st.sampled_from(['um', 'um', 'nm', 'mm']))}


def run_cube(case, ctx):
    from astropy import units as u
    from sedfitter import Fitter
    from sedfitter.extinction import Extinction
    wav, flux = case['wav'], case['flux']
    nw, nm = len(wav), len(flux)
    names = ['cm%d' % m for m in range(nm)]
    labels = {'storage_' + case['storage'], 'memmap' if case['memmap'] else 'no_memmap', 'unit_' + case['unit']}
    idx = list(range(nw)) if case['storage'] == 'asc' else list(range(nw))[::-1]
    with ctx.tempdir() as d:
        pkgio.write_conf(d, False, 0.02, version=2)
        pkgio.write_parameters(d, names, {'p': [float(m) for m in range(nm)]})
        pkgio.write_cube(os.path.join(d, 'flux.fits'), names, [wav[i] for i in idx], None,
                         [[[flux[m][i] for i in idx]] for m in range(nm)], [[[0.1 * flux[m][i] for i in idx]] for m in range(nm)])
        un = {'um': u.micron, 'nm': u.nm, 'mm': u.mm}[case['unit']]
        fnames = [(r[0] * u.micron).to(un) for r in case['requests']]
        law = Extinction()
        lw = [0.01 * (5e5) ** (i / 39.) for i in range(40)]
        law.wav = np.array(lw) * u.micron
        law.chi = np.array([w ** -1.7 for w in lw]) * u.cm ** 2 / u.g   # steep: close wavelengths still differ in k
        with must_succeed('Fitter() with wavelength filters'), quiet():
            fitter = Fitter(fnames, np.ones(len(fnames)) * u.arcsec, d, extinction_law=law, av_range=[0., 0.],
                            distance_range=[1., 2.] * u.kpc, use_memmap=case['memmap'])
        from vlib import oracle_fit as of
        src = {'name': 's', 'x': 0., 'y': 0., 'flags': [1] * len(fnames), 'flux': case['src_flux'],
               'err': [f * r for f, r in zip(case['src_flux'], case['src_rel'])]}
        bands = of.transform_source(src['flags'], src['flux'], src['err'])
        with must_succeed('Fitter.fit'), quiet():
            info = fitter.fit(gen.source_object(src))
        got = dict((str(n).strip(), (float(info.sc[i]), float(info.chi2[i]))) for i, n in enumerate(info.model_name))
        f32 = case['memmap']
        # with av_range [0, 0] the unconstrained 2-parameter solution is computed first; when it lands inside the range the
        # scale keeps that solution's rounding error ~ eps*cond
        kreq = of.extinction_pattern(lw, [w ** -1.7 for w in lw], [r[0] for r in case['requests']])
        probe = of.Ref2D(bands, [0.] * len(bands), kreq, 0., 0.)
        cond = probe.cond if not probe.singular else 1e16
        for m, name in enumerate(names):
            ok = False
            detail = None
            for combo in itertools.product(*[r[1] for r in case['requests']]):
                L = [math.log10(flux[m][i]) for i in combo]
                sw = sum(b[2] for b in bands)
                swr = sum(b[2] * (b[1] - l) for b, l in zip(bands, L))
                sc = -swr / (2. * sw)
                S = sum(b[2] * (b[1] - l + 2. * sc) ** 2 for b, l in zip(bands, L))
                T = sum(b[2] * (b[1] - l) ** 2 for b, l in zip(bands, L))
                slack = of.float32_slack(bands, L, [0.] * len(L), 0., sc) if f32 else 0.
                tol_sc = (1e-9 + 1e-14 * cond) * (1 + abs(sc)) if not f32 else (1e-5 + 1e-14 * cond) * (1 + abs(sc))
                if abs(got[name][0] - sc) <= tol_sc and abs(got[name][1] - S) <= 1e-9 * max(T, S) + 1e-9 + slack:
                    ok = True
                    break
                detail = (sc, S, combo)
            if not ok:
                fail('cube package fitted at wavelengths %r (tabulated %r): model %s has scale %r chi2 %r; the slices at the '
                     'nearest tabulated wavelengths %r give scale %r chi2 %r' % (
                         [r[0] for r in case['requests']], wav, name, got[name][0], got[name][1],
                         [wav[i] for i in detail[2]], detail[0], detail[1]), 'c16:not_nearest_slice')
        del fitter
    nontrivial = any(r[0] not in wav for r in case['requests'])
    if any(len(r[1]) > 1 for r in case['requests']):
        labels.add('tie_between_two_wavelengths')
    return labels, nontrivial


ENTRIES = {'mono': run_mono, 'cube': run_cube}


def plan(ctx):
    ctx.run_given('mono', mono_cases(4 if ctx.quick else 7), ctx.scale(2, 12), shrink=False)
    ctx.run_given('cube', cube_cases(), ctx.scale(25, 500))
