"""
C09 - parameter listings follow the fit ranking, for any parameter-file order.

No fitter needed: FitInfo objects are built directly; meta.model_dir holds only a generated parameters.fits
(1..4 numeric columns whose values encode the model, names of varying length, rows permuted).
Oracle: the text written by write_parameters / write_parameter_ranges / extract_parameters is parsed back and compared,
by model NAME, with the unpermuted abstract table; filter_table is compared directly.
"""
import os
import math

import numpy as np
from hypothesis import strategies as st

from vlib import pkgio
from vlib import fitinfo_gen as fg
from vlib.runner import fail, must_succeed, quiet
from props import c05 as c05mod

PROPERTY_ID = 'C09'
LEVEL = 'exploration'
DESIGN_REF = 'DESIGN.md section 3, C09'
RULE = ('Hypothesis generates a parameter table (2..10 models named in styles like m1/m10/m2, 1..4 numeric columns, a row '
        'permutation), 1..3 fit results listing a subset of the models with random chi^2 (ties, 1e30, inf, NaN) ranked by '
        'sort(), a selector of every form (thresholds strictly between attained values), optional additional-parameter '
        'dictionaries, and the input form (file / single object / list). One evaluation = the three writers + filter_table '
        'on that input. Non-trivial = some source with >= 2 selected fits, a non-identity row permutation and a fit order '
        'that differs from the name order; distinct = distinct canonical JSON.')
RULE += (' ' + 'Also varied: right-justified model names in the parameter file, parameters.fits.gz, float32 columns, explicit parameters= lists, the table rewritten in the same directory between two passes.')
RULE += (' ' + 'MODEL_NAME column at any position; the second pass in the same directory also revises the values.')
RULE += (' ' + 'Parameter columns may be named like a fit quantity (AV, Scale, CHI2).')
ASSUMPTIONS = [
    'printed precision: %10.3f -> 5.1e-4 absolute, %10.3e / %11.3e -> 5.1e-4 relative',
    'the leading fit quantities (chi2, av, scale) are identified by position, parameter columns by the header names the functions print',
    'each call receives its own copy of the result objects (object identity / mutation is C10)',
]

NAME_STYLES = {
    'short': lambda i: 'm%d' % (i + 1),                 # m1, m10, m2 ... (name order != numeric order)
    'padded': lambda i: 'model_%04d' % i,
    'mixed': lambda i: ['Zeta', 'alpha', 'B2', 'a10', 'a9', 'M', 'm', '30001', '3000', 'x_y'][i],
}


@st.composite
def cases(draw):
    nmod = draw(st.integers(2, 10))
    style = draw(st.sampled_from(sorted(NAME_STYLES)))
    names = [NAME_STYLES[style](i) for i in range(nmod)]
    ncol = draw(st.integers(1, 4))
    # (a parameter may carry the name of a fit quantity: a circumstellar AV, a disc SCALE height, a CHI2 of the model grid)
    colnames = draw(st.permutations(['MASS', 'par2', 'Teff', 'LOGL', 'AV', 'Scale', 'CHI2']))[:ncol]
    params = {}
    for c, cn in enumerate(colnames):
        # values encode (column, model): any mix-up changes numbers well above the printed precision
        params[cn] = [(c + 1) * 1000. + 7. * i + draw(st.floats(0., 1., allow_nan=False)) for i in range(nmod)]
    if draw(st.integers(0, 4)) == 0:
        params[colnames[0]][draw(st.integers(0, nmod - 1))] = float('nan')
    perm = draw(st.permutations(list(range(nmod))))
    nfilt = draw(st.integers(1, 4))
    nsrc = draw(st.integers(1, 3))
    recs = [draw(fg.record_desc(names, nfilt, name='src%d' % i, min_fits=0)) for i in range(nsrc)]
    # selector
    form = draw(st.sampled_from('ANNCDEF'))
    if form == 'A':
        sel = ['A', None]
    elif form == 'N':
        sel = ['N', draw(st.integers(0, nmod + 1))]
    else:
        r = recs[0]
        nd = max(1, sum(1 for f in r['source']['flags'] if f in (1, 4)))
        finite = sorted(set(v for v in r['chi2'] if v == v and v < 1e29))
        best = finite[0] if finite else 0.
        stats = sorted(set(c05mod.statistic(form, v, best, nd) for v in finite))
        pos = draw(st.integers(0, len(stats)))
        lo = stats[pos - 1] if pos > 0 else (stats[0] - 2. if stats else -1.)
        hi = stats[pos] if pos < len(stats) else (stats[-1] + 2. if stats else 1.)
        sel = [form, lo + (hi - lo) * 0.5]
    additional = {}
    for an in draw(st.sampled_from([[], [], ['extra'], ['extra', 'age']])):
        additional[an] = dict((n, 50. + 3. * i + (0.5 if an == 'age' else 0.)) for i, n in enumerate(names))
    form_in = draw(st.sampled_from(['file', 'list', 'object'] if nsrc == 1 else ['file', 'list']))
    return {'names': names, 'params': params, 'columns': list(colnames), 'perm': list(perm), 'nfilt': nfilt,
            'perm2': list(draw(st.permutations(list(range(nmod))))) if draw(st.booleans()) else None,
            'col_format': draw(st.sampled_from(['D', 'D', 'E'])),
            # parameters= of extract_parameters: 'all' or an explicit list (a subset, in any order, with or without MODEL_NAME)
            'ex_parameters': draw(st.one_of(st.none(), st.permutations(list(colnames) + ['MODEL_NAME']).map(
                lambda p: list(p)[:max(1, (len(p) * 2) // 3)]))),
            'records': recs, 'selector': sel, 'additional': additional, 'input': form_in,
            'name_width': draw(st.sampled_from([30, 30, 12])),
            'name_justify': draw(st.sampled_from(['left', 'left', 'left', 'right'])),
            'par_gz': draw(st.integers(0, 4)) == 0,
            'name_col_pos': draw(st.sampled_from([0, 0, 0, 1, 99]))}


def close(got, want, rel=5.1e-4, absol=0.):
    if want != want:
        return got != got
    if got != got:
        return False
    if math.isinf(want) or math.isinf(got):
        return got == want
    return abs(got - want) <= rel * abs(want) + absol


def tofloat(tok):
    try:
        return float(tok)
    except ValueError:
        return None


def fresh_inputs(case, infos, d, tag):
    """a new copy of the input for every call (object identity is C10's business)"""
    copies = []
    for i in infos:
        c = c05mod.clone(i)
        c.meta = i.meta
        copies.append(c)
    if case['input'] == 'file':
        path = os.path.join(d, 'fits_%s.fitinfo' % tag)
        fg.write_fit_file(path, copies)
        return path
    if case['input'] == 'object':
        return copies[0]
    return copies


def run_case(case, ctx):
    from sedfitter import write_parameters, write_parameter_ranges, extract_parameters
    from sedfitter.models import load_parameter_table
    names = case['names']
    sel = case['selector']
    labels = {'input_' + case['input'], 'sel_' + sel[0], 'ncol=%d' % len(case['columns'])}
    add = case['additional']
    if add:
        labels.add('additional')
    permuted = case['perm'] != sorted(case['perm'])
    if permuted:
        labels.add('permuted')
    with ctx.tempdir() as d:
      mdir = os.path.join(d, 'models')
      os.mkdir(mdir)
      passes = [case['perm']] + ([case['perm2']] if case.get('perm2') else [])
      for ipass, perm_now in enumerate(passes):
        # second pass: the SAME model directory, parameters.fits rewritten with its rows in another order and with revised
        # values (a grid re-computed, a unit changed): listings show what the file holds NOW
        if ipass == 1:
            case = dict(case, params=dict((c_, [v * 1.75 + 3. for v in vals]) for c_, vals in case['params'].items()))
        stored = names
        if case.get('name_justify') == 'right':
            # names right-justified in the column (leading blanks of unequal length): names are compared without padding
            wj = min(case['name_width'], max(len(x) for x in names) + 2)
            stored = [x.rjust(wj) for x in names]
            labels.add('names_right_justified')
        pkgio.write_parameters(mdir, stored, dict((c, case['params'][c]) for c in case['columns']), order=perm_now,
                               width=case['name_width'], fmt=case.get('col_format', 'D'), gz=bool(case.get('par_gz')),
                               name_pos=case.get('name_col_pos', 0))
        if case.get('name_col_pos', 0):
            labels.add('model_name_not_first_column')
        if ipass:
            labels.add('table_rewritten_in_same_directory')
            d2 = os.path.join(d, 'pass2')
            os.mkdir(d2)
        else:
            d2 = d
        meta = fg.Meta(mdir, [1. + j for j in range(case['nfilt'])], [3.] * case['nfilt'],
                       {'wav': [0.1, 0.55, 10.], 'chi': [3., 1., 0.1]})
        infos = [fg.build_info(r, names, meta) for r in case['records']]
        # expected selection per source
        expected = []
        for info, r in zip(infos, case['records']):
            nd = sum(1 for f in r['source']['flags'] if f in (1, 4))
            rows = c05mod.rows_of(info, 'built result')
            if sel[0] in 'EF' and nd == 0:
                return labels | {'skipped_n_data_0'}, False
            kept, amb = c05mod.reference_keep(rows, sel, nd)
            if amb:
                return labels | {'skipped_threshold_equals_attained'}, False
            expected.append({'name': r['source']['name'], 'n_data': nd, 'kept': kept})
        nontrivial = False
        for e in expected:
            order = [k[0] for k in e['kept']]
            if len(order) >= 2 and permuted and order != sorted(order):
                nontrivial = True
            if not e['kept']:
                labels.add('zero_selected')

        def par_value(col, model):
            if col in add:
                return add[col][model]
            return case['params'][col][names.index(model)]

        allcols = list(case['columns']) + list(add.keys())

        # ---------------------------------------------------------------- write_parameters
        out = os.path.join(d, 'pars.txt')
        with must_succeed('write_parameters'), quiet():
            write_parameters(fresh_inputs(case, infos, d, 'wp'), out, select_format=tuple(sel), additional=dict(add))
        lines = open(out).read().split('\n')
        head = lines[1].split()
        if head[:5] != ['fit_id', 'model_name', 'chi2', 'av', 'scale']:
            fail('write_parameters: unexpected header %r' % head, 'c09:wp_header')
        # the five leading columns are the fit quantities; parameter columns are identified by name among the others
        colpos = dict((h, i) for i, h in enumerate(head) if i >= 5)
        for c in allcols:
            if c.lower() not in colpos:
                fail('write_parameters: column %s missing from the header %r' % (c, head), 'c09:wp_header')
        body = [l.split() for l in lines[3:] if l.strip()]
        pos = 0
        for e in expected:
            if pos >= len(body) or len(body[pos]) != 3:
                fail('write_parameters: source line missing for %s' % e['name'], 'c09:wp_layout')
            sname, nd, nf = body[pos]
            pos += 1
            if sname != e['name'] or int(nd) != e['n_data'] or int(nf) != len(e['kept']):
                fail('write_parameters: source line %r, expected name=%s n_data=%d n_fits=%d' % (
                    body[pos - 1], e['name'], e['n_data'], len(e['kept'])), 'c09:wp_source_line')
            for rank, k in enumerate(e['kept']):
                if pos >= len(body) or len(body[pos]) != len(head):
                    fail('write_parameters: fit line %d of %s missing or malformed: %r' % (
                        rank + 1, e['name'], body[pos] if pos < len(body) else None), 'c09:wp_layout')
                tok = body[pos]
                pos += 1
                if int(tok[0]) != rank + 1 or tok[1] != k[0]:
                    fail('write_parameters: fit %d of %s is %s in the ranking but the listing says %s' % (
                        rank + 1, e['name'], k[0], tok[1]), 'c09:wp_order')
                for key, want, absol in (('chi2', k[4], 5.1e-4), ('av', k[2], 5.1e-4), ('scale', k[3], 5.1e-4)):
                    kpos = {'chi2': 2, 'av': 3, 'scale': 4}[key]
                    got = tofloat(tok[kpos])
                    if got is None or not close(got, want, rel=1e-12, absol=absol):
                        fail('write_parameters: %s of fit %d (%s) printed as %s, value %r' % (
                            key, rank + 1, k[0], tok[kpos], want), 'c09:wp_fit_values')
                for c in allcols:
                    got = tofloat(tok[colpos[c.lower()]])
                    want = par_value(c, k[0])
                    if got is None or not close(got, want):
                        fail('write_parameters: fit %d of %s is model %s whose %s is %r, but the listing shows %s' % (
                            rank + 1, e['name'], k[0], c, want, tok[colpos[c.lower()]]), 'c09:wp_wrong_parameters')
        if pos != len(body):
            fail('write_parameters: %d unexpected extra lines' % (len(body) - pos), 'c09:wp_layout')

        # ---------------------------------------------------------------- write_parameter_ranges
        out = os.path.join(d, 'ranges.txt')
        with must_succeed('write_parameter_ranges'), quiet():
            write_parameter_ranges(fresh_inputs(case, infos, d, 'wr'), out, select_format=tuple(sel), additional=dict(add))
        lines = open(out).read().split('\n')
        groups = lines[0].split()
        if groups[:3] != ['chi2', 'av', 'scale']:
            fail('write_parameter_ranges: unexpected header %r' % groups, 'c09:wr_header')
        body = [l.split() for l in lines[3:] if l.strip()]
        if len(body) != len(expected):
            fail('write_parameter_ranges: %d lines for %d sources' % (len(body), len(expected)), 'c09:wr_layout')
        for tok, e in zip(body, expected):
            if len(tok) != 3 + 3 * len(groups):
                fail('write_parameter_ranges: line has %d columns, header promises %d' % (len(tok), 3 + 3 * len(groups)),
                     'c09:wr_layout')
            if tok[0] != e['name'] or int(tok[1]) != e['n_data'] or int(tok[2]) != len(e['kept']):
                fail('write_parameter_ranges: %r, expected name=%s n_data=%d n_fits=%d' % (
                    tok[:3], e['name'], e['n_data'], len(e['kept'])), 'c09:wr_source_line')
            for gi, g in enumerate(groups):
                trip = tok[3 + 3 * gi: 6 + 3 * gi]
                if not e['kept']:
                    if trip != ['-', '-', '-']:
                        fail('write_parameter_ranges: no fit selected but %s shows %r' % (g, trip), 'c09:wr_placeholders')
                    continue
                if gi == 0:
                    vals = [k[4] for k in e['kept']]
                elif gi == 1:
                    vals = [k[2] for k in e['kept']]
                elif gi == 2:
                    vals = [k[3] for k in e['kept']]
                else:
                    match = [c for c in allcols if c.lower() == g]
                    if not match:
                        fail('write_parameter_ranges: unknown column %s' % g, 'c09:wr_header')
                    vals = [par_value(match[0], k[0]) for k in e['kept']]
                good = [v for v in vals if v == v]
                want = (min(good) if good else float('nan'), vals[0], max(good) if good else float('nan'))
                got = [tofloat(t) for t in trip]
                for gv, wv, nm in zip(got, want, ('min', 'best', 'max')):
                    if gv is None or not close(gv, wv):
                        fail('write_parameter_ranges: %s %s of %s shown as %r, expected %r (selected fits: %r)' % (
                            nm, g, e['name'], trip, want, [k[0] for k in e['kept']]), 'c09:wr_wrong_range')
        for c in allcols:
            if c.lower() not in groups[3:]:
                fail('write_parameter_ranges: column %s missing' % c, 'c09:wr_header')

        # ---------------------------------------------------------------- extract_parameters
        prefix = os.path.join(d, 'ex_')
        with must_succeed('extract_parameters'), quiet():
            exkw = {}
            if case.get('ex_parameters'):
                exkw['parameters'] = list(case['ex_parameters'])
                labels.add('explicit_parameter_list')
            extract_parameters(input=fresh_inputs(case, infos, d, 'ex'), output_prefix=prefix, output_suffix='.txt',
                               select_format=tuple(sel), **exkw)
        for e in expected:
            path = prefix + e['name'] + '.txt'
            if not os.path.exists(path):
                fail('extract_parameters: no file for %s' % e['name'], 'c09:ex_layout')
            lines = [l for l in open(path).read().split('\n') if l.strip()]
            head = lines[0].split()
            if head[:3] != ['CHI2', 'AV', 'SC']:
                fail('extract_parameters: header %r' % head, 'c09:ex_header')
            if len(lines) - 1 != len(e['kept']):
                fail('extract_parameters: %d rows for %d selected fits of %s' % (len(lines) - 1, len(e['kept']), e['name']),
                     'c09:ex_row_count')
            cp = dict((h, i) for i, h in enumerate(head) if i >= 3)
            for rank, k in enumerate(e['kept']):
                tok = lines[1 + rank].split()
                if len(tok) != len(head):
                    fail('extract_parameters: malformed row %r' % tok, 'c09:ex_layout')
                for kpos, (key, want) in enumerate((('CHI2', k[4]), ('AV', k[2]), ('SC', k[3]))):
                    got = tofloat(tok[kpos])
                    if got is None or not close(got, want):
                        fail('extract_parameters: %s of fit %d printed %s, value %r' % (key, rank + 1, tok[kpos], want),
                             'c09:ex_fit_values')
                if 'MODEL_NAME' in cp and tok[cp['MODEL_NAME']] != k[0]:
                    fail('extract_parameters: row %d of %s is %s in the ranking but shows %s' % (
                        rank + 1, e['name'], k[0], tok[cp['MODEL_NAME']]), 'c09:ex_order')
                wanted = case['columns'] if not case.get('ex_parameters') else [c for c in case['ex_parameters'] if c != 'MODEL_NAME']
                if case.get('ex_parameters') and head[3:] != list(case['ex_parameters']):
                    fail('extract_parameters(parameters=%r): header lists %r' % (case['ex_parameters'], head[3:]), 'c09:ex_header')
                for c in wanted:
                    if c not in cp:
                        fail('extract_parameters: column %s missing' % c, 'c09:ex_header')
                    got = tofloat(tok[cp[c]])
                    want = par_value(c, k[0])
                    if got is None or not close(got, want):
                        fail('extract_parameters: row %d of %s is model %s whose %s is %r, listing shows %s' % (
                            rank + 1, e['name'], k[0], c, want, tok[cp[c]]), 'c09:ex_wrong_parameters')

        # ---------------------------------------------------------------- filter_table (table for the parameter plots)
        with must_succeed('loading the parameter table'):
            t = load_parameter_table(mdir)
            t['MODEL_NAME'] = np.char.strip(t['MODEL_NAME'])
            t.sort('MODEL_NAME')
        for info, e in zip(infos, expected):
            c = c05mod.clone(info)
            with must_succeed('keep + filter_table'):
                c.keep(tuple(sel))
                ts = c.filter_table(t, additional=dict(add))
            got_names = [str(x).strip() for x in ts['MODEL_NAME']]
            if got_names != [k[0] for k in e['kept']]:
                fail('filter_table: rows %r, fits are %r' % (got_names, [k[0] for k in e['kept']]), 'c09:ft_order')
            for c2 in allcols:
                for rank, k in enumerate(e['kept']):
                    want = par_value(c2, k[0])
                    got = float(ts[c2][rank])
                    if not close(got, want, rel=1e-12 if case.get('col_format', 'D') == 'D' or c2 in add else 2e-7):
                        fail('filter_table: row %d (%s) has %s = %r, expected %r' % (rank, k[0], c2, got, want),
                             'c09:ft_wrong_parameters')
    return labels, nontrivial


ENTRIES = {'listings': run_case}


def plan(ctx):
    ctx.run_given("listings", cases(), ctx.scale(100, 1500))
