"""
C18 - filter_output splits sources into two complete, disjoint, faithful files.

Generator: directly built FitInfo sequences (1..10 sources, >=1 fit each, n_data >= 1), criterion chi / cpd with a
threshold that differs from every attained value, explicit / automatic output names, input as file or list.
Oracle: both outputs are read back; multiset union == input, no source in both, order preserved within each file,
records bit-identical, membership == reference predicate.
"""
import os

from hypothesis import strategies as st

from vlib import fitinfo_gen as fg
from vlib.runner import fail, must_succeed, quiet

PROPERTY_ID = 'C18'
LEVEL = 'exploration'
DESIGN_REF = 'DESIGN.md section 3, C18'
RULE = ('Hypothesis generates 1..10 fit results (1..6 fits each, best chi^2 incl. 0, ties, 1e30, inf, NaN after the best fit; n_data 1..5 with '
        'other flags mixed in; with/without predicted fluxes), a criterion chi= or cpd= whose threshold lies strictly '
        'between attained values or exactly on one, explicit or automatic output names, and the input form (file path or list of result '
        'objects), preceded by 0..2 earlier calls with other thresholds on the same output names. One evaluation = the last filter_output call with both outputs read back. Non-trivial = >= 2 sources and both '
        'output files non-empty; distinct = distinct canonical JSON.')
RULE += (' ' + 'List inputs may have their final flag set in place after n_data was read.')
RULE += (' ' + 'A third of the inputs hold sources that share a name (some, all, or all unnamed): names are labels, every record counts.')
RULE += (' ' + 'A quarter of the file inputs are handed over through a symbolic link in another directory.')
RULE += (' ' + 'Half of the list inputs hold results read from a fit file and revised afterwards (sources renamed, positions changed).')
ASSUMPTIONS = [
    'an output that should hold no record may be a zero-byte / unreadable file (nothing is claimed about it)',
    'automatic output names are only defined for a file-name input (documented ValueError otherwise)',
]


@st.composite
def cases(draw):
    nfilt = draw(st.integers(1, 5))
    nmod = draw(st.integers(1, 6))
    names = ['m%d' % i for i in range(nmod)]
    nsrc = draw(st.integers(1, 10))
    wf = draw(st.booleans())
    recs = []
    for i in range(nsrc):
        r = draw(fg.record_desc(names, nfilt, with_fluxes=wf, min_fits=1, min_data=draw(st.integers(1, min(5, nfilt))),
                                name='s%02d' % i, allow_nan=False))
        # models the fitter could not constrain carry chi^2 = NaN and are ranked last: the best chi^2 is still the first one
        if len(r['chi2']) >= 2 and draw(st.integers(0, 3)) == 0:
            imin = r['chi2'].index(min(r['chi2']))
            others = [i for i in range(len(r['chi2'])) if i != imin]
            for i in draw(st.lists(st.sampled_from(others), min_size=1, max_size=len(others), unique=True)):
                r['chi2'][i] = float('nan')
        recs.append(r)
    # source names are labels, not keys: several sources of a catalogue may carry the same one (or none at all)
    naming = draw(st.sampled_from(['unique', 'unique', 'unique', 'some_shared', 'all_shared', 'unnamed']))
    if naming != 'unique' and nsrc >= 2:
        for i, r in enumerate(recs):
            if naming == 'all_shared':
                r['source']['name'] = 'star'
            elif naming == 'unnamed':
                r['source']['name'] = ''
            elif i > 0 and draw(st.booleans()):
                r['source']['name'] = recs[draw(st.integers(0, i - 1))]['source']['name']
    crit = draw(st.sampled_from(['chi', 'cpd']))
    # attained statistic per source (best = smallest chi2, which sort() puts first)
    stats = []
    for r in recs:
        best = min(v for v in r['chi2'] if v == v)
        nd = sum(1 for f in r['source']['flags'] if f in (1, 4))
        stats.append(best if crit == 'chi' else best / nd)
    finite = sorted(set(s for s in stats if s < 1e29))
    pos = draw(st.integers(0, len(finite)))
    lo = finite[pos - 1] if pos > 0 else (finite[0] - 1. if finite else 0.)
    hi = finite[pos] if pos < len(finite) else (finite[-1] + 1. if finite else 1.)
    thr = lo + (hi - lo) * draw(st.sampled_from([0.5, 0.3, 0.8]))
    if draw(st.integers(0, 9)) == 0:
        thr = 1e31
    elif finite and draw(st.integers(0, 5)) == 0:
        # a threshold EQUAL to an attained value: "below the threshold" is strict, that source belongs to the bad file
        thr = draw(st.sampled_from(finite))
    form = draw(st.sampled_from(['file', 'file', 'list']))
    # histories: earlier calls with other thresholds that wrote to the SAME output names (all good / all bad / a split)
    before = draw(st.lists(st.sampled_from([1e31, -1., 0.75, 3.3]), max_size=2))
    return {'names': names, 'nfilt': nfilt, 'records': recs, 'criterion': crit, 'threshold': thr, 'input': form,
            'auto': draw(st.booleans()) if form == 'file' else False, 'earlier_thresholds': before,
            'naming': draw(st.sampled_from(['both', 'both', 'good_explicit', 'bad_explicit'])),
            'late_flags': draw(st.booleans()), 'source_naming': naming, 'via_link': draw(st.integers(0, 3)) == 0,
            'list_from_file': draw(st.booleans())}


def read_or_empty(path, what):
    """records of an output file; a zero-byte / absent file counts as empty"""
    if not os.path.exists(path) or os.path.getsize(path) == 0:
        return [], None
    with must_succeed('reading the %s output' % what):
        return fg.read_fit_file(path)


def run_case(case, ctx):
    from sedfitter import filter_output
    names = case['names']
    nfilt = case['nfilt']
    crit, thr = case['criterion'], case['threshold']
    labels = {'crit_' + crit, 'input_' + case['input'], 'auto_names' if case['auto'] else 'explicit_names'}
    if len(set(r['source']['name'] for r in case['records'])) < len(case['records']):
        labels.add('sources_sharing_a_name')
    if any(v != v for r in case['records'] for v in r['chi2']):
        labels.add('nan_chi2_ranked_last')
    if thr == 0.:
        return labels, False  # a zero threshold is indistinguishable from "not set" in the API
    with ctx.tempdir() as d:
        meta = fg.Meta(os.path.join(d, 'models'), [1. + j for j in range(nfilt)], [3.] * nfilt,
                       {'wav': [0.1, 0.55, 10.], 'chi': [3., 1., 0.1]})
        infos = [fg.build_info(r, names, meta) for r in case['records']]
        if case.get('late_flags') and case['input'] == 'list':
            # the caller looked at n_data while a band still carried another flag and then set the final flag IN PLACE (a
            # saturated band dropped, a detection turned into a limit): the count that matters is that of the flags as they
            # are when filter_output runs
            for i_ in infos:
                so = i_.source
                final = int(so.valid[0])
                so.valid[0] = 0 if final in (1, 4) else 1
                int(so.n_data)
                so.valid[0] = final
            labels.add('flags_finalised_in_place_after_n_data_was_read')
        if case.get('list_from_file') and case['input'] == 'list':
            # the list holds results that were read from a fit file and revised afterwards (sources renamed to the catalogue's
            # designation, positions corrected): what is handed over is what must come out
            first = os.path.join(d, 'first_pass.fitinfo')
            fg.write_fit_file(first, infos)
            with must_succeed('reading a fit file into a list'):
                infos, _ = fg.read_fit_file(first)
            for i_ in infos:
                i_.source.name = 'fieldA-' + i_.source.name
                i_.source.x = float(i_.source.x) + 0.25
            case = dict(case, records=[dict(r, source=dict(r['source'], name='fieldA-' + r['source']['name'])) for r in case['records']])
            labels.add('list_of_results_read_from_a_file_and_revised')
        snaps = [fg.snapshot(i) for i in infos]
        expect_good = []
        for r in case['records']:
            best = min(v for v in r['chi2'] if v == v)
            nd = sum(1 for f in r['source']['flags'] if f in (1, 4))
            stat = best if crit == 'chi' else best / nd
            expect_good.append(stat < thr)
            if stat == thr:
                labels.add('threshold_equals_attained_value')
        inp = os.path.join(d, 'input.fitinfo')
        fg.write_fit_file(inp, infos)
        if case.get('via_link') and case['input'] == 'file':
            # the results are kept under a run name elsewhere and handed over under the name of a link in the working
            # directory: automatic output names are formed from the name that was handed over
            os.mkdir(os.path.join(d, 'archive'))
            os.mkdir(os.path.join(d, 'work'))
            real = os.path.join(d, 'archive', 'run_0042.fitinfo')
            os.rename(inp, real)
            inp = os.path.join(d, 'work', 'current.fitinfo')
            os.symlink(real, inp)
            labels.add('input_given_through_a_symbolic_link')
        naming = case.get('naming', 'both')
        if case['auto'] and naming == 'good_explicit':
            good, bad = os.path.join(d, 'well_fit'), inp + '_bad'
            kw = {'output_good': good}
            labels.add('mixed_names')
        elif case['auto'] and naming == 'bad_explicit':
            good, bad = inp + '_good', os.path.join(d, 'badly_fit')
            kw = {'output_bad': bad}
            labels.add('mixed_names')
        elif case['auto']:
            good, bad = inp + '_good', inp + '_bad'
            kw = {}
        else:
            good, bad = os.path.join(d, 'well_fit'), os.path.join(d, 'badly_fit')
            kw = {'output_good': good, 'output_bad': bad}
        arg = inp if case['input'] == 'file' else infos
        for t_prev in case.get('earlier_thresholds', []):
            kw_prev = dict(kw)
            kw_prev['chi'] = t_prev
            with must_succeed('an earlier filter_output call on the same output names'), quiet():
                filter_output(arg, **kw_prev)
            labels.add('outputs_rewritten')
        kw[crit] = thr
        with must_succeed('filter_output(%s input)' % case['input']), quiet():
            filter_output(arg, **kw)
        g, gmeta = read_or_empty(good, 'good')
        b, bmeta = read_or_empty(bad, 'bad')
        # every source exactly once, in the right file, in input order, unchanged
        want_g = [i for i, e in enumerate(expect_good) if e]
        want_b = [i for i, e in enumerate(expect_good) if not e]
        for recs, want, what in ((g, want_g, 'good'), (b, want_b, 'bad')):
            got_names = [r.source.name for r in recs]
            want_names = [case['records'][i]['source']['name'] for i in want]
            if got_names != want_names:
                other = 'cpd' if crit == 'cpd' else 'chi'
                fail('%s file holds %r, expected %r (criterion %s < %r)' % (what, got_names, want_names, other, thr),
                     'c18:membership_or_order')
            for r, i in zip(recs, want):
                diff = fg.diff_snapshots(fg.snapshot(r), snaps[i])
                if diff:
                    fail('%s file: record of %s differs from the input in %s' % (what, r.source.name, diff), 'c18:record_changed')
        for m, what in ((gmeta, 'good'), (bmeta, 'bad')):
            if m is not None and fg.meta_snapshot(m) != fg.meta_snapshot(meta):
                fail('%s file: metadata differs from the input' % what, 'c18:meta_changed')
        # inputs untouched
        if case['input'] == 'list':
            for i, info in enumerate(infos):
                if fg.diff_snapshots(fg.snapshot(info), snaps[i]):
                    fail('filter_output modified the result object it was given', 'c18:input_modified')
    return labels, len(infos) >= 2 and bool(want_g) and bool(want_b)


ENTRIES = {'split': run_case}


def plan(ctx):
    ctx.run_given('split', cases(), ctx.scale(60, 1200))
