"""
C01 - best-fit A_V and scale are the constrained least-squares optimum (distance-independent packages).

Oracle: vlib.oracle_fit.Ref2D (exact rational normal equations + box constraint) for EVERY model of the grid,
results matched by model name.
"""
import os

from hypothesis import strategies as st

from vlib import gen
from vlib import oracle_fit as of
from vlib.runner import fail, must_succeed, quiet

PROPERTY_ID = 'C01'
LEVEL = 'exploration'
DESIGN_REF = 'DESIGN.md section 3, C01 and section 2.2'
RULE = ('Hypothesis generates (extinction law, 2..6 filters incl. wavelengths outside the law and on its nodes, 1..8 models '
        'with log fluxes in [-6,6] incl. duplicated models, 1..5 sources with flags over {0,1,2,3,4,9} random or planted '
        'near a reddened model, 1..2 A_V ranges of shapes wide/std/narrow/point/negative/high) and writes the package '
        'with an independent FITS writer (per-file convolved tables, or cube with named / wavelength filters; 10% memmap). '
        'One evaluation = one package with all its fits. Non-trivial = at least one (source, model) pair with >=2 fitted '
        'points of unequal extinction coefficient and cond(normal matrix) <= 1e8 was compared with the reference; '
        'distinct = distinct canonical JSON of the case.')
RULE += (' ' + 'Also varied: cube packages fitted with a filter list mixing names and wavelengths, cube / convolved files stored in Jy or mJy, .fits.gz convolved files and parameter table, model names longer than 30 characters (cube + wavelength cases), packages rewritten in place, integer-typed photometry.')
RULE += (' ' + 'models.conf is written as documented or in any other spelling the reader takes as the same declaration (Yes/NO/n, no blanks around =, comment and blank lines, keys in another order).')
RULE += (' ' + 'Cube packages fitted at wavelengths may tabulate their slices 1.5..3 per cent off the wavelengths asked for (nearest slice; the extinction coefficient belongs to the wavelength asked for).')
ASSUMPTIONS = [
    'objective-gap tolerance 1e-10*sum(w r^2)+1e-12, parameter tolerance 1e-6*(1+max|p*|) when cond<=1e8 (DESIGN 2.2)',
    'singular regressions (all k equal or <2 fitted points) are outside the stated domain: counted, not asserted',
    'float32 (memmap) cases are compared with first-order slack for 1e-6 dex per model log flux',
    'limit penalties within 1e-9 dex of the limit are accepted either way',
]


def check_info(case, src, info, av_range, names, labels, float32):
    k = of.extinction_pattern(case['law']['wav'], case['law']['chi'], [f['wav'] for f in case['filters']])
    bands = of.transform_source(src['flags'], src['flux'], src['err'])
    got_names = [str(n).strip() for n in info.model_name]
    if sorted(got_names) != sorted(names):
        fail('result does not list every model exactly once: %r vs %r' % (got_names, names), 'c01:model_set')
    compared = 0
    for i, name in enumerate(got_names):
        m = names.index(name)
        ref = of.Ref2D(bands, case['grid']['logflux'][m], k, av_range[0], av_range[1])
        if ref.singular:
            labels.add('singular_skipped')
            continue
        if ref.cond > 1e10:
            # singular to working precision (extinction coefficients equal to ~1e-5 relative or closer): the closed
            # form cannot resolve it in float64 and the property excludes singular regressions -- counted only
            labels.add('numerically_singular_skipped')
            continue
        if ref.cond > 1e8:
            labels.add('ill_conditioned')
        av, sc, chi2 = float(info.av[i]), float(info.sc[i]), float(info.chi2[i])
        bad = of.check_fit_2d(ref, av, sc, chi2, float32=float32,
                              what='source %s model %s range %r' % (src['name'], name, av_range))
        if bad is not None:
            fail(bad[1], bad[0])
        if ref.cond <= 1e8:
            compared += 1
        if ref.clamped == 'lo':
            labels.add('clamped_lo')
        elif ref.clamped == 'hi':
            labels.add('clamped_hi')
        else:
            labels.add('interior')
        sure, maybe = ref.penalties(av, sc)
        if sure > 0:
            labels.add('limit_violated')
        if sure >= 1e30:
            labels.add('conf1_violated')
    return compared


def run_case(case, ctx):
    labels = {'format_' + case['format']}
    names = case['grid']['names']
    float32 = bool(case.get('memmap'))
    if float32:
        labels.add('float32')
    compared = 0
    generations = [case]
    if len(names) >= 1 and (len(names) + len(case['filters'])) % 2 == 0:
        # second generation: same directory and filter names, every model's fluxes replaced (models reversed and rescaled)
        g2 = dict(case)
        g2['grid'] = dict(case['grid'])
        g2['grid']['logflux'] = [[v * 0.5 + 0.25 * j for j, v in enumerate(row)] for row in case['grid']['logflux'][::-1]]
        generations.append(g2)
        labels.add('package_rewritten_in_place')
    with ctx.tempdir() as d:
      for gcase in generations:
        case = gcase
        import shutil
        for sub in ('convolved',):
            shutil.rmtree(os.path.join(d, sub), ignore_errors=True)
        gen.build_package_2d(d, case)
        for av_range in case['av_ranges']:
            if av_range[0] == av_range[1]:
                labels.add('lo==hi')
            with must_succeed('Fitter()'), quiet():
                fitter = gen.make_fitter(d, case, av_range)
            for src in case['sources']:
                fl = set(src['flags'])
                if 4 in fl:
                    labels.add('flag4')
                if fl & {2, 3}:
                    labels.add('has_limits')
                if fl & {0, 9}:
                    labels.add('has_ignored')
                so = gen.source_object(src)
                if src.get('int_arrays'):
                    labels.add('integer_typed_photometry')
                # non-positive values on plot-only points are C03's concern; keep C01 focused on its own domain
                with must_succeed('Fitter.fit'), quiet():
                    info = fitter.fit(so)
                compared += check_info(case, src, info, av_range, names, labels, float32)
            del fitter
    k = of.extinction_pattern(case['law']['wav'], case['law']['chi'], [f['wav'] for f in case['filters']])
    if any(kk == 0. for kk in k):
        labels.add('k_zero_band')
    return labels, compared > 0


@st.composite
def cases(draw, thorough=False):
    c = draw(gen.fit_case_2d(max_models=12 if thorough else 8, max_filters=8 if thorough else 6))
    gen.off_grid_requests(draw, c)
    # some sources carry their photometry as integers (a catalogue in integer mJy, Python ints): same numbers, other dtype
    c['sources'] = [gen.integerize(s) if draw(st.integers(0, 3)) == 0 else s for s in c['sources']]
    # C01's domain: ignored points carry positive values here (arbitrary values are exercised in C03)
    return c


ENTRIES = {'fit2d': run_case}


def plan(ctx):
    ctx.run_given('fit2d', cases(thorough=not ctx.quick), ctx.scale(100, 1500))
