"""
C20 - source lines are parsed by the documented column layout or rejected.

Oracle: a reference parser written from docs/data.rst (independent of Source.from_ascii).
Entries
  parse      generated line x EVERY column count 0..3n+6 (finite sub-domain enumerated per line)
  roundtrip  to_ascii -> from_ascii (printed precision), to_dict/from_dict and pickle (exact)
"""
import math
import pickle
import re

import numpy as np
from hypothesis import strategies as st

from vlib.runner import Violation, fail, must_succeed

PROPERTY_ID = 'C20'
LEVEL = 'exploration'
DESIGN_REF = 'DESIGN.md section 3, C20'
EXHAUSTIVE = False
EXHAUSTIVE_NOTE = ('per generated line every column count 0..3n+6 is enumerated; the lines themselves '
                   '(names, flags, values, separators) are sampled')
RULE = ('Hypothesis generates data lines (n in 0..12, flags over {0,1,2,3,4,9}, values over 60 decades incl. '
        'negatives, 0 and -999 placeholders, names of 1..40 printable non-space characters, separators from '
        'spaces/tabs/runs); for every line every column count 0..3n+6 is tried by truncating / appending tokens '
        'that are valid both as flags and as numbers. A case is non-trivial when n>=1 (so that flags and '
        '(flux, error) pairs exist and mis-assignment is observable); distinct = distinct canonical JSON.')
RULE += (' ' + 'Round trip entry: element types of the flux and error sequences vary independently (Python / numpy floats, integers, float32), containers list / tuple / array, coordinates up to +-20000.')
RULE += (' ' + "Entry 'chars': lines whose tokens are built from arbitrary characters (digits, signs, exponents, separators, letters, non-ASCII digits), classified by the reference as must-parse / must-reject / either.")
RULE += (' ' + 'The sources parsed within one case stay alive and are examined again after the later lines were read.')
RULE += (' ' + 'Entry "datafile": fit() is given a data file with one line of 0..2 columns at any position; records exist for exactly the eligible sources before it.')
RULE += (' ' + 'The parsed source of the round trip is edited in place (a flag, a flux, an error) and formatted and parsed once more.')
ASSUMPTIONS = [
    'numeric tokens are plain decimal / exponent literals; nothing is claimed about exotic literals numpy may accept',
    'a token in a flag position that is not an integer literal but is numerically an allowed flag (e.g. 1.000e+00) '
    'may be either accepted as that flag or rejected',
    'coordinates (columns 2 and 3) are always numeric',
]

ALLOWED = (0, 1, 2, 3, 4, 9)

# ------------------------------------------------------------------ generators

_name_chars = ''.join(chr(c) for c in range(33, 127))
names = st.text(alphabet=_name_chars, min_size=1, max_size=40)

_special = st.sampled_from([-999., -9.999e2, 0., -999.0, 1., 2., 3., 9., 4.])


@st.composite
def magnitudes(draw):
    e = draw(st.integers(-30, 30))
    m = draw(st.floats(1., 9.999, allow_nan=False))
    s = draw(st.sampled_from([1., 1., 1., -1.]))
    return s * m * 10. ** e


values = st.one_of(magnitudes(), magnitudes(), magnitudes(), _special)
_formats = ['%r', '%.3e', '%11.3e', '%.6e', '%g', '%.10g', '%E']


@st.composite
def value_token(draw):
    v = draw(values)
    fmt = draw(st.sampled_from(_formats))
    if fmt == '%r':
        tok = repr(float(v))
    else:
        tok = (fmt % v).strip()
    return tok


seps = st.sampled_from([' ', '  ', '\t', ' \t ', '     ', '\t\t'])


@st.composite
def line_case(draw):
    n = draw(st.integers(0, 12))
    name = draw(names)
    x = draw(st.one_of(st.floats(-360., 360., allow_nan=False), st.just(0.), magnitudes()))
    y = draw(st.one_of(st.floats(-90., 90., allow_nan=False), st.just(0.)))
    fmtc = draw(st.sampled_from(['%r', '%.5f', '%9.5f', '%g']))
    xt = repr(float(x)) if fmtc == '%r' else (fmtc % x).strip()
    yt = repr(float(y)) if fmtc == '%r' else (fmtc % y).strip()
    flags = draw(st.lists(st.sampled_from(ALLOWED), min_size=n, max_size=n))
    badflag = draw(st.sampled_from([None, None, None, '5', '6', '7', '8', '-1', '10', '2.5', 'x', '99']))
    badpos = draw(st.integers(0, max(0, n - 1)))
    vals = draw(st.lists(value_token(), min_size=2 * n, max_size=2 * n))
    extras = draw(st.lists(st.sampled_from(['0', '1', '2', '3', '4', '9']), min_size=3, max_size=3))
    nsep = 3 * n + 6 + 2
    sep = draw(st.lists(seps, min_size=nsep, max_size=nsep))
    lead = draw(st.sampled_from(['', ' ', '\t', '   ']))
    tail = draw(st.sampled_from(['', '\n', ' \n', '  ', '\r\n']))
    return {'n': n, 'name': name, 'x': xt, 'y': yt, 'flags': [str(f) for f in flags], 'values': vals,
            'extras': extras, 'sep': sep, 'lead': lead, 'tail': tail,
            'badflag': badflag if n > 0 else None, 'badpos': badpos}


def typed_values(draw, kind, n):
    if kind == 'int':
        return draw(st.lists(st.one_of(st.integers(-999, 10 ** 6), st.integers(0, 200), st.just(-999)), min_size=n, max_size=n))
    vals = draw(st.lists(values, min_size=n, max_size=n))
    if kind == 'float32':
        vals = [float(np.float32(v)) for v in vals]
    return vals


@st.composite
def source_case(draw):
    n = draw(st.integers(0, 12))
    kinds = [draw(st.sampled_from(['float', 'float', 'int', 'float32'])) for _ in range(2)]
    return {'name': draw(names),
            # sky coordinates in any convention, and pixel-like coordinates of a few thousand
            'x': draw(st.one_of(st.floats(-360., 360., allow_nan=False), st.floats(-20000., 20000., allow_nan=False))),
            'y': draw(st.one_of(st.floats(-90., 90., allow_nan=False), st.floats(-20000., 20000., allow_nan=False))),
            'valid': draw(st.lists(st.sampled_from(ALLOWED), min_size=n, max_size=n)),
            'flux': typed_values(draw, kinds[0], n),
            'error': typed_values(draw, kinds[1], n),
            # element type of the two sequences, independently: Python / numpy floats, whole numbers given as integers
            # (counts, or catalogue values rounded to integers), single-precision arrays
            'kinds': kinds,
            'container': draw(st.sampled_from(['list', 'tuple', 'array']))}


# ------------------------------------------------------------------ reference parser (from data.rst)

def classify_flag(tok):
    """'ok' (integer literal of an allowed flag), 'bad' (must be rejected) or 'either'."""
    t = tok.strip()
    body = t[1:] if t[:1] in '+-' else t
    if body.isdigit() and body.isascii():
        return ('ok', int(t)) if int(t) in ALLOWED else ('bad', None)
    try:
        v = float(t)
    except ValueError:
        return ('bad', None)
    if v in ALLOWED:
        return ('either', int(v))
    return ('bad', None)


def reference_parse(tokens):
    """-> ('eof',) | ('reject',) | ('either', parsed) | ('ok', parsed)"""
    c = len(tokens)
    if c < 3:
        return ('eof',)
    if c % 3 != 0:
        return ('reject',)
    n = c // 3 - 1
    status = 'ok'
    flags = []
    for tok in tokens[3:3 + n]:
        kind, val = classify_flag(tok)
        if kind == 'bad':
            return ('reject',)
        if kind == 'either':
            status = 'either'
        flags.append(val)
    rest = tokens[3 + n:]
    try:
        flux = [float(t) for t in rest[0::2]]
        err = [float(t) for t in rest[1::2]]
    except ValueError:  # a non-numeric token where a number is required
        return ('reject',)
    assert len(flux) == n and len(err) == n
    return (status, {'name': tokens[0], 'x': float(tokens[1]), 'y': float(tokens[2]),
                     'valid': flags, 'flux': flux, 'error': err})


_DECIMAL = re.compile(r'^[+-]?(\d+(\.\d*)?|\.\d+)([eE][+-]?\d+)?$', re.ASCII)


def classify_number(tok):
    """'ok' (plain decimal literal: must be read as that number), 'bad' (not a number for Python: must be rejected) or
    'either' (nan / inf spellings, digit separators, non-ASCII digits ...: number parsers differ, nothing is claimed)"""
    if _DECIMAL.match(tok):
        v = float(tok)
        return ('ok', v) if v == v and abs(v) != float('inf') else ('either', None)
    try:
        float(tok)
    except ValueError:
        return ('bad', None)
    return ('either', None)


def reference_parse_chars(tokens):
    """like reference_parse, for tokens made of arbitrary characters -> ('eof',) | ('reject',) | ('either',) | ('ok', parsed)"""
    c = len(tokens)
    if c < 3:
        return ('eof',)
    if c % 3 != 0:
        return ('reject',)
    n = c // 3 - 1
    status = 'ok'
    flags = []
    for tok in tokens[3:3 + n]:
        kind, val = classify_flag(tok) if tok.isascii() else (('bad', None) if classify_number(tok)[0] == 'bad' else ('either', None))
        if kind == 'bad':
            return ('reject',)
        if kind == 'either':
            status = 'either'
        flags.append(val)
    nums = []
    for tok in tokens[1:3] + tokens[3 + n:]:
        kind, val = classify_number(tok)
        if kind == 'bad':
            return ('reject',)
        if kind == 'either':
            status = 'either'
        nums.append(val)
    if status == 'either':
        return ('either',)
    rest = nums[2:]
    return ('ok', {'name': tokens[0], 'x': nums[0], 'y': nums[1], 'valid': flags, 'flux': rest[0::2], 'error': rest[1::2]})


_junk_chars = st.sampled_from(list('0123456789.eE+-_naifNAIFxX,;:#') + ['\u0661', '\u0662', '\uff11', '\u00bd', '\u2212'])
junk_tokens = st.text(alphabet=_junk_chars, min_size=1, max_size=6)


@st.composite
def char_case(draw):
    n = draw(st.integers(0, 6))
    c = draw(st.sampled_from([3 * (n + 1)] * 3 + [3 * (n + 1) - 1, 3 * (n + 1) + 1, 3 * (n + 1) + 2, 1, 2, 0]))
    toks = []
    for i in range(c):
        junk = draw(st.integers(0, 7)) == 0
        if i == 0:
            toks.append(draw(names))
        elif junk:
            toks.append(draw(junk_tokens))
        elif 3 <= i < 3 + n:
            toks.append(str(draw(st.sampled_from(ALLOWED))))
        else:
            toks.append(draw(value_token()))
    nsep = c + 2
    return {'tokens': toks, 'sep': draw(st.lists(seps, min_size=nsep, max_size=nsep)),
            'lead': draw(st.sampled_from(['', ' ', '\t'])), 'tail': draw(st.sampled_from(['', '\n', ' \n', '\r\n']))}


def run_chars(case, ctx):
    """lines whose tokens are made of arbitrary characters: never mis-assigned, never a crash other than an exception"""
    from sedfitter.source import Source
    tokens = case['tokens']
    line = build_line(case, tokens)
    expect = reference_parse_chars(tokens)
    labels = {'chars_' + expect[0]}
    what = 'line %r' % line
    try:
        s = Source.from_ascii(line)
    except EOFError:
        if expect[0] not in ('eof',):
            fail('%s was taken as end of input' % what, 'parse:spurious_eof')
        return labels, False
    except Violation:
        raise
    except Exception as exc:  # noqa
        if expect[0] == 'eof':
            fail('%s should end the input (EOFError), got %s' % (what, type(exc).__name__), 'parse:eof_expected')
        if expect[0] == 'ok':
            fail('%s is well-formed but was rejected: %s: %s' % (what, type(exc).__name__, exc), 'parse:wellformed_rejected')
        return labels, len(tokens) >= 6
    if expect[0] == 'eof':
        fail('%s should end the input, but a source was returned' % what, 'parse:eof_expected')
    if expect[0] == 'reject':
        fail('%s does not fit the layout / holds a token that is no number or no valid flag, but was accepted as valid=%r flux=%r error=%r' % (
            what, None if s.valid is None else list(s.valid), None if s.flux is None else list(s.flux),
            None if s.error is None else list(s.error)), 'parse:malformed_accepted')
    if expect[0] == 'ok':
        compare_parsed(s, expect[1], what)
    return labels, len(tokens) >= 6


def _same_float(a, b):
    a = float(a)
    b = float(b)
    if a == b:
        return True
    return abs(a - b) <= 4e-16 * max(abs(a), abs(b))


def compare_parsed(s, ref, what):
    if s.name != ref['name']:
        fail('%s: name %r != %r' % (what, s.name, ref['name']), 'parse:name')
    if not (_same_float(s.x, ref['x']) and _same_float(s.y, ref['y'])):
        fail('%s: coordinates (%r, %r) != (%r, %r)' % (what, s.x, s.y, ref['x'], ref['y']), 'parse:coords')
    n = len(ref['valid'])
    for arr, key in ((s.valid, 'valid'), (s.flux, 'flux'), (s.error, 'error')):
        if arr is None or len(arr) != n:
            fail('%s: %s has length %s, expected %d' % (what, key, None if arr is None else len(arr), n),
                 'parse:length')
    if [int(v) for v in s.valid] != ref['valid'] or any(float(v) != int(v) for v in s.valid):
        fail('%s: flags %r != %r' % (what, list(s.valid), ref['valid']), 'parse:flags')
    for j in range(n):
        if not _same_float(s.flux[j], ref['flux'][j]):
            fail('%s: flux[%d] = %r, line says %r' % (what, j, float(s.flux[j]), ref['flux'][j]), 'parse:flux_slot')
        if not _same_float(s.error[j], ref['error'][j]):
            fail('%s: error[%d] = %r, line says %r' % (what, j, float(s.error[j]), ref['error'][j]),
                 'parse:error_slot')
    if int(s.n_data) != sum(1 for f in ref['valid'] if f in (1, 4)):
        fail('%s: n_data %r' % (what, s.n_data), 'parse:n_data')


def build_line(case, tokens):
    out = case['lead']
    for i, t in enumerate(tokens):
        out += t + (case['sep'][i] if i < len(tokens) - 1 else '')
    return out + case['tail']


def run_parse(case, ctx):
    from sedfitter.source import Source
    n = case['n']
    flags = list(case['flags'])
    labels = set()
    if case.get('badflag') is not None and n > 0:
        flags[case['badpos']] = case['badflag']
        labels.add('bad_flag_planted')
    base = [case['name'], case['x'], case['y']] + flags + list(case['values'])
    pool = base + list(case['extras'])
    alive = []   # the sources read so far stay around, as the lines of a catalogue read into a list do
    for c in range(0, 3 * n + 7):
        tokens = pool[:c]
        line = build_line(case, tokens)
        expect = reference_parse(tokens)
        what = 'line with %d columns (n=%d)' % (c, n)
        try:
            s = Source.from_ascii(line)
        except EOFError:
            if expect[0] != 'eof':
                fail('%s was taken as end of input instead of being %s' % (
                    what, 'parsed' if expect[0] in ('ok', 'either') else 'rejected'), 'parse:spurious_eof')
            labels.add('eof')
            continue
        except Violation:
            raise
        except Exception as exc:  # noqa
            if expect[0] == 'eof':
                fail('%s should end the input (EOFError), got %s' % (what, type(exc).__name__), 'parse:eof_expected')
            if expect[0] == 'ok':
                fail('%s is well-formed but was rejected: %s: %s' % (what, type(exc).__name__, exc),
                     'parse:wellformed_rejected')
            labels.add('rejected_bad_count' if c % 3 else 'rejected_bad_flag')
            continue
        # parsed without error
        if expect[0] == 'eof':
            fail('%s should end the input, but a source was returned' % what, 'parse:eof_expected')
        if expect[0] == 'reject':
            fail('%s does not fit the layout / has an invalid flag but was accepted as name=%r valid=%r flux=%r' % (
                what, s.name, None if s.valid is None else list(s.valid),
                None if s.flux is None else list(s.flux)), 'parse:malformed_accepted')
        compare_parsed(s, expect[1], what)
        alive.append((s, expect[1], what))
        labels.add('parsed_n=%d' % min(len(expect[1]['valid']), 3) if len(expect[1]['valid']) < 3 else 'parsed_n>=3')
        if c != 3 * (n + 1):
            labels.add('parsed_other_layout')
    if alive:
        # one more line of another width, then every source read before still says what its own line said
        other = Source.from_ascii('later_line 10.5 -3.25 1 3 0 2.5 0.25 7.0 0.9 -999. -999.')
        compare_parsed(other, {'name': 'later_line', 'x': 10.5, 'y': -3.25, 'valid': [1, 3, 0], 'flux': [2.5, 7.0, -999.],
                               'error': [0.25, 0.9, -999.]}, 'a well-formed 12-column line read after the others')
        for s, ref, what in alive:
            compare_parsed(s, ref, what + ', examined again after %d later line(s) had been read' % len(alive))
        labels.add('sources_alive_side_by_side>=%d' % min(len(alive) + 1, 3))
    return labels, n >= 1


def run_roundtrip(case, ctx):
    from sedfitter.source import Source
    n = len(case['valid'])
    conv = {'list': list, 'tuple': tuple, 'array': np.array}[case['container']]
    s = Source()
    with must_succeed('building a Source'):
        s.name = case['name']
        s.x = case['x']
        s.y = case['y']
        kinds = case.get('kinds', ['float', 'float'])

        def typed(vals, kind):
            if case['container'] == 'array':
                if kind == 'int':
                    return np.array([int(v) for v in vals], dtype=np.int64 if len(vals) % 2 else np.int32)
                return np.array(vals, dtype=np.float32 if kind == 'float32' else float)
            if kind == 'int':
                return conv([int(v) for v in vals])
            if kind == 'float32':
                return conv([np.float32(v) for v in vals])
            return conv(vals)
        if case['container'] == 'array':
            s.valid = np.array(case['valid'], dtype=int)
        else:
            s.valid = conv(case['valid'])
        s.flux = typed(case['flux'], kinds[0])
        s.error = typed(case['error'], kinds[1])
    labels = {'container_' + case['container'], 'flux_%s_error_%s' % tuple(kinds)}
    if n == 0:
        labels.add('n=0')

    # exact round trips
    with must_succeed('to_dict/from_dict'):
        s2 = Source.from_dict(s.to_dict())
    with must_succeed('pickle round trip'):
        s3 = pickle.loads(pickle.dumps(s, 2))
    for other, what in ((s2, 'dict'), (s3, 'pickle')):
        if other.name != case['name'] or other.x != case['x'] or other.y != case['y']:
            fail('%s round trip changed name/coordinates' % what, 'roundtrip:exact_meta')
        for key in ('valid', 'flux', 'error'):
            got = getattr(other, key)
            if got is None or [float(v) for v in got] != [float(v) for v in case[key]]:
                fail('%s round trip changed %s: %r != %r' % (what, key, None if got is None else list(got), case[key]),
                     'roundtrip:exact_' + key)

    # printed precision round trip (any n with a name that contains no whitespace)
    with must_succeed('to_ascii'):
        line = s.to_ascii()
    if len(case['name']) > 30:
        labels.add('long_name')
    try:
        t = Source.from_ascii(line)
    except Exception as exc:  # noqa
        fail('from_ascii(to_ascii(source)) raised %s: %s' % (type(exc).__name__, exc), 'roundtrip:ascii_raises')
    if t.name != case['name']:
        fail('ascii round trip changed the name: %r -> %r' % (case['name'], t.name), 'roundtrip:name')
    if t.valid is None or [int(v) for v in t.valid] != list(case['valid']):
        fail('ascii round trip changed the flags: %r -> %r' % (case['valid'], t.valid), 'roundtrip:flags')
    if not (abs(t.x - case['x']) <= 5.0001e-6) or not (abs(t.y - case['y']) <= 5.0001e-6):
        fail('ascii round trip moved the coordinates (%r, %r) -> (%r, %r)' % (case['x'], case['y'], t.x, t.y),
             'roundtrip:coords')
    for key in ('flux', 'error'):
        got = getattr(t, key)
        if got is None or len(got) != n:
            fail('ascii round trip changed the number of %s values' % key, 'roundtrip:length')
        for j in range(n):
            want = case[key][j]
            if not (abs(float(got[j]) - want) <= 5.0001e-4 * abs(want)):
                fail('ascii round trip: %s[%d] %r -> %r (more than the printed precision)' % (
                    key, j, want, float(got[j])), 'roundtrip:value')
    # the source that was parsed is revised (a bad point switched off, a value corrected in place, a new name) and formatted
    # again: the new line says what the source now holds
    if n >= 1:
        j = (len(case['name']) + n) % n
        new_flag = 0 if int(t.valid[j]) != 0 else 1
        new_flux = float(t.flux[j]) * 2. + 1.25
        new_err = abs(float(t.error[j])) + 0.5
        with must_succeed('editing a parsed source in place and formatting it again'):
            t.valid[j] = new_flag
            t.flux[j] = new_flux
            t.error[j] = new_err
            line2 = t.to_ascii()
            t2 = Source.from_ascii(line2)
        want_flags = [int(v) for v in case['valid']]
        want_flags[j] = new_flag
        if [int(v) for v in t2.valid] != want_flags:
            fail('a parsed source whose flag %d was set to %d in place formats as flags %r (expected %r)' % (
                j, new_flag, [int(v) for v in t2.valid], want_flags), 'roundtrip:edit_after_parse')
        if not (abs(float(t2.flux[j]) - new_flux) <= 5.0001e-4 * abs(new_flux)) or not (abs(float(t2.error[j]) - new_err) <= 5.0001e-4 * abs(new_err)):
            fail('a parsed source whose values %d were set to (%r, %r) in place formats as (%r, %r)' % (
                j, new_flux, new_err, float(t2.flux[j]), float(t2.error[j])), 'roundtrip:edit_after_parse')
        labels.add('edited_after_parsing')
    return labels, n >= 1


# ------------------------------------------------------------------------------------------ "ends the input", seen from fit()

@st.composite
def datafile_case(draw):
    """a data file handed to fit() with one line of fewer than three columns somewhere in it"""
    from props import c10
    c = draw(c10.fit_cases(formats2=('v1',), formats3=('v1',), max_lines=5))
    c['selector'] = ['N', 1]
    c['output_convolved'] = False
    c['cut_after'] = draw(st.integers(0, len(c['lines'])))
    c['short_line'] = draw(st.sampled_from(['', '   ', '\t', 'stub', 'stub 1.5', 'x y', '#']))
    return c


def run_datafile(case, ctx):
    import os
    from sedfitter import fit
    from props import c10
    from vlib import pkgio, fitinfo_gen as fg
    from vlib.runner import quiet
    cut = case['cut_after']
    labels = {'short_line_%s' % ('first' if cut == 0 else 'last' if cut == len(case['lines']) else 'in_the_middle'),
              'short_line_columns=%d' % len(case['short_line'].split())}
    with ctx.tempdir() as d:
        mdir, dr = c10.build(case, d)
        fnames, aps, law, dr = c10.fit_args(case, mdir, dr)
        lines = [pkgio.source_line(s_['name'], s_['x'], s_['y'], s_['flags'], s_['flux'], s_['err']).rstrip('\n')
                 for s_ in case['lines']]
        data = os.path.join(d, 'data.txt')
        with open(data, 'w') as f:
            f.write('\n'.join(lines[:cut] + [case['short_line']] + lines[cut:]) + '\n')
        output = os.path.join(d, 'output.fitinfo')
        with must_succeed('fit() on a data file whose line %d has %d column(s)' % (cut + 1, len(case['short_line'].split()))), quiet():
            fit(data, fnames, aps, mdir, output, n_data_min=case['n_data_min'], extinction_law=law,
                av_range=list(case['av_range']), distance_range=dr, output_format=tuple(case['selector']))
        want = [s_['name'] for s_ in case['lines'][:cut] if sum(1 for f_ in s_['flags'] if f_ in (1, 4)) >= case['n_data_min']]
        if os.path.exists(output) and os.path.getsize(output) > 0:
            with must_succeed('reading the fit output file'):
                recs, _ = fg.read_fit_file(output)
            got = [r.source.name for r in recs]
        else:
            got = []
        if got != want:
            fail('data file with a %d-column line as line %d of %d: fit() wrote records for %r; the sources read before the input '
                 'ended (with enough fitted points) are %r' % (len(case['short_line'].split()), cut + 1, len(lines) + 1, got, want),
                 'parse:short_line_does_not_end_input')
    return labels, 0 < cut < len(case['lines'])


ENTRIES = {'parse': run_parse, 'roundtrip': run_roundtrip, 'chars': run_chars, 'datafile': run_datafile}


def plan(ctx):
    ctx.run_given('parse', line_case(), ctx.scale(60, 1500))
    ctx.run_given('roundtrip', source_case(), ctx.scale(60, 1500))
    ctx.run_given('chars', char_case(), ctx.scale(120, 4000))
    ctx.run_given('datafile', datafile_case(), ctx.scale(12, 250), shrink=not ctx.quick)
