"""
C19 - a fit output file cut short by a crash never yields a wrong record.

Fault enumeration: for generated files (1..4 records of varying size, with / without predicted fluxes) EVERY truncation
offset 0..len-1 is tried.  Oracle: reading raises, or yields a bit-identical prefix of the written records, never more
records than were completely written before the offset.
"""
import os

from hypothesis import strategies as st

from vlib import gen
from vlib import fitinfo_gen as fg
from vlib.runner import fail, must_succeed, quiet

PROPERTY_ID = 'C19'
LEVEL = 'fault_enumeration'
DESIGN_REF = 'DESIGN.md section 3, C19'
EXHAUSTIVE = True
EXHAUSTIVE_NOTE = ('for every generated file all truncation offsets 0..len-1 are enumerated (thousands per file); the file '
                   'contents are sampled by Hypothesis')
RULE = ('Hypothesis generates fit output files: 1..4 records with 0..8 fits each (NaN / inf chi^2 included), 1..5 filters, '
        'with or without predicted fluxes, written by FitInfoFile; record boundaries are measured by writing the 0..k '
        'record prefixes separately. One evaluation = one file with ALL its truncation offsets (offsets_evaluated counts '
        'them). Non-trivial = file with >= 2 records (so that a cut can fall between and inside records); distinct = '
        'distinct canonical JSON of the file description.')
RULE += (' ' + 'Also varied: one Source object re-used for all records (given new photometry before each write), records of 4500 / 9000 fits.')
RULE += (' ' + 'At every fifth offset the open file is gone over a second time after the first-pass records were reduced with keep().')
ASSUMPTIONS = [
    'a reader that raises any exception on a truncated file satisfies the property; returning fewer records is allowed',
    'truncation is the only fault (bytes before the cut are intact), as after a crash or a full disk',
]


@st.composite
def file_case(draw):
    nfilt = draw(st.integers(1, 5))
    nmod = draw(st.integers(1, 8))
    names = ['model_%04d' % i for i in range(nmod)]
    nrec = draw(st.integers(1, 4))
    wf = draw(st.booleans())
    recs = [draw(fg.record_desc(names, nfilt, with_fluxes=wf, name='s%d' % i)) for i in range(nrec)]
    # "records of varying size": now and then one record lists thousands of fits (a whole model grid kept with ('A', 0))
    big = draw(st.sampled_from([0, 0, 0, 0, 0, 0, 0, 4500, 9000])) if nfilt <= 2 else 0
    return {'names': names, 'nfilt': nfilt, 'records': recs, 'big': big, 'big_at': draw(st.integers(0, nrec - 1)),
            # the writer's objects: fresh per record (as fit() makes them), or ONE Source object given new photometry before
            # each fit (object interface in a loop)
            'reuse_source': draw(st.integers(0, 2)) == 0,
            'law': {'wav': [0.1, 0.55, 10.], 'chi': [3., 1., 0.1]}}


def run_case(case, ctx):
    names = case['names']
    nfilt = case['nfilt']
    labels = {'records=%d' % len(case['records']), 'with_fluxes' if case['records'][0]['fluxes'] is not None else 'no_fluxes'}
    with ctx.tempdir() as d:
        meta = fg.Meta(os.path.join(d, 'models'), [1. + j for j in range(nfilt)], [3.] * nfilt, case['law'])
        records = list(case['records'])
        big = case.get('big', 0)
        if big:
            names = ['g%05d' % i for i in range(big)]
            base = records[case['big_at']]
            records = [dict(r, models=[m % big for m in r['models']]) for r in records]
            records[case['big_at']] = {'source': base['source'], 'models': list(range(big)),
                                        'chi2': [0.5 + 0.001 * ((i * 7919) % big) for i in range(big)],
                                        'av': [0.01 * (i % 97) for i in range(big)], 'sc': [-1. + 0.002 * (i % 500) for i in range(big)],
                                        'fluxes': None if base['fluxes'] is None else [[0.1 * j + 0.001 * i for j in range(nfilt)] for i in range(big)]}
            labels.add('large_record')
        reuse = bool(case.get('reuse_source')) and len(records) >= 2
        full = os.path.join(d, 'full.fitinfo')
        if reuse:
            labels.add('one_source_object_reused')
            infos = records
            with must_succeed('writing the fit file'):
                snaps = fg.write_fit_file_reusing(full, records, names, meta)
        else:
            infos = [fg.build_info(r, names, meta) for r in records]
            snaps = [fg.snapshot(i) for i in infos]
            with must_succeed('writing the fit file'):
                fg.write_fit_file(full, infos)
        data = open(full, 'rb').read()
        # boundaries: size of the file holding the first k records (k = 0 is impossible to write: nothing is
        # written before the first record, so the header boundary is found from the 1-record file minus the record)
        bounds = []
        for k in range(1, len(infos) + 1):
            p = os.path.join(d, 'prefix%d' % k)
            if reuse:
                fg.write_fit_file_reusing(p, records, names, meta, upto=k)
            else:
                fg.write_fit_file(p, infos[:k])
            b = open(p, 'rb').read()
            if data[:len(b)] != b:
                # the writer is not prefix-stable; fall back to a conservative bound (no record is complete before the end)
                bounds = None
                break
            bounds.append(len(b))
        # sanity: the intact file reads back completely and exactly
        with must_succeed('reading the intact file'):
            got, _ = fg.read_fit_file(full)
        if len(got) != len(infos):
            fail('intact file yields %d records, %d were written' % (len(got), len(infos)), 'c19:intact_count')
        for i, g in enumerate(got):
            diff = fg.diff_snapshots(fg.snapshot(g), snaps[i])
            if diff:
                fail('intact file: record %d differs in %s' % (i, diff), 'c19:intact_differs')
        cut = os.path.join(d, 'cut.fitinfo')
        nraise = nprefix = 0
        if big:
            # a file of several hundred kB: every offset of the first 3000 and last 3000 bytes and around each record
            # boundary, every 89th offset elsewhere (counted separately; the exhaustive claim is for the small files)
            offsets = set(range(0, min(3000, len(data)))) | set(range(max(0, len(data) - 3000), len(data))) | \
                set(range(0, len(data), 397 if ctx.quick else 89))
            for b in (bounds or []):
                offsets |= set(range(max(0, b - 300), min(len(data), b + 300)))
            offsets = sorted(offsets)
        else:
            offsets = range(len(data))
        # cut progressively shorter: one copy of the file, truncated in place from the end towards the start
        with open(cut, 'wb') as f:
            f.write(data)
        nsecond = 0
        for t in sorted(offsets, reverse=True):
            os.truncate(cut, t)
            complete = len(infos) if bounds is None else sum(1 for b in bounds if b <= t)
            try:
                with quiet():
                    recs, _ = fg.read_fit_file(cut)
            except Exception:  # noqa: any error is an acceptable outcome
                nraise += 1
                continue
            nprefix += 1
            if len(recs) > complete:
                fail('file of %d bytes cut at %d: %d records returned but only %d were completely written' % (
                    len(data), t, len(recs), complete), 'c19:invented_record')
            for i, g in enumerate(recs):
                try:
                    snap = fg.snapshot(g)
                except Exception as exc:  # noqa
                    fail('file cut at %d: record %d is not a usable result (%s: %s)' % (t, i, type(exc).__name__, exc),
                         'c19:broken_record')
                diff = fg.diff_snapshots(snap, snaps[i])
                if diff:
                    fail('file of %d bytes cut at %d: record %d differs from the written one in %s' % (
                        len(data), t, i, diff), 'c19:wrong_record')
            if t % 5 == 0 and recs:
                # the same open file gone over a second time, after the records of the first pass were reduced by their
                # consumer (every post-processing function calls keep() on what it is handed): the second pass still tells
                # what was written - or nothing
                from sedfitter.fit_info import FitInfoFile
                try:
                    with quiet():
                        fin = FitInfoFile(cut, 'r')
                        try:
                            for g in fin:
                                g.keep(('N', 1))
                            again = [g for g in fin]
                        finally:
                            fin.close()
                except Exception:  # noqa
                    again = []
                for i, g in enumerate(again):
                    diff = 'more records than were written' if i >= complete else fg.diff_snapshots(fg.snapshot(g), snaps[i])
                    if diff:
                        fail('file of %d bytes cut at %d, gone over a second time through the same FitInfoFile after the records of '
                             'the first pass were reduced with keep(): record %d differs from the written one in %s' % (
                                 len(data), t, i, diff), 'c19:wrong_record')
                nsecond += 1
        ctx.labels['offsets_second_pass'] += nsecond
        ctx.labels['offsets_evaluated'] += len(offsets)
        ctx.labels['offsets_raise'] += nraise
        ctx.labels['offsets_prefix'] += nprefix
    return labels, len(case['records']) >= 2


ENTRIES = {'truncate': run_case}


def plan(ctx):
    ctx.run_given('truncate', file_case(), ctx.scale(6, 80), shrink=ctx.quick)
