"""
C04 - results are ranked by chi^2 and every row describes one model.

Generator: C01 / C02 cases biased to >=3 models, duplicated models (exact ties) and confidence-1 limits (1e30 tiers).
Oracle: permutation of the package's names; non-decreasing chi^2; names[model_id[i]] == model_name[i]; per row, chi^2
and predicted fluxes recomputed from the NAMED model at the row's (av, sc) by the reference of C01 / C02.
"""
import math

from hypothesis import strategies as st

from vlib import gen
from vlib import oracle_fit as of
from vlib.runner import fail, must_succeed, quiet
from props import c01 as c01mod
from props import c02 as c02mod

PROPERTY_ID = 'C04'
LEVEL = 'exploration'
DESIGN_REF = 'DESIGN.md section 3, C04'
EXHAUSTIVE = False
EXHAUSTIVE_NOTE = ('entry sortunit enumerates all chi^2 vectors of length 0..5 over {0,1,1,2.5,1e30,inf,NaN} (19608) through '
                   'FitInfo.sort(); the fit-level entries are sampled')
RULE = ('Hypothesis generates C01 (distance-independent) and C02 (distance-dependent) cases with 1..10 models, exact '
        'duplicates (tied chi^2) and confidence-1 limits (chi^2 >= 1e30 tiers); one evaluation = one package with all '
        'its fits. Non-trivial = a fit with >=3 models whose chi^2 order differs from the package order; distinct = '
        'distinct canonical JSON. Entries sortunit / sortlong: FitInfo.sort() on identity-coded results whose chi^2 vector '
        'holds +inf / NaN anywhere in package order (enumerated up to length 5, sampled up to 60); non-trivial = a '
        'non-finite value before a finite one.')
RULE += (' ' + 'Also varied: everything the C01 / C02 generators vary (mixed filter lists, stored units, long model names, cube validity flags).')
RULE += (' ' + 'Cube packages fitted at wavelengths may tabulate their slices 1.5..3 per cent off the wavelengths asked for (nearest slice; the extinction coefficient belongs to the wavelength asked for).')
RULE += (' ' + 'In about half of the cases a second Fitter on the same package (filters reversed) is made before the first is used and kept alive.')
ASSUMPTIONS = [
    'package order of the models = row order of the convolved-flux files / cube written by the independent writer',
    'predicted fluxes are compared at 1e-9 absolute (dex) + float32 slack when memory-mapped',
]


def common_checks(info, names, labels, what):
    got = [str(n).strip() for n in info.model_name]
    n = len(names)
    for key in ('av', 'sc', 'chi2', 'model_id', 'model_name'):
        arr = getattr(info, key)
        if arr is None or len(arr) != n:
            fail('%s: %s has %s rows for %d models' % (what, key, None if arr is None else len(arr), n), 'c04:row_count')
    if sorted(got) != sorted(names):
        fail('%s: rows %r are not a permutation of the package models %r' % (what, got, names), 'c04:not_permutation')
    chi2 = [float(c) for c in info.chi2]
    for i in range(n - 1):
        if not (chi2[i] <= chi2[i + 1]):
            fail('%s: chi2 not non-decreasing: %r' % (what, chi2), 'c04:not_sorted')
    for i in range(n):
        mid = int(info.model_id[i])
        if not (0 <= mid < n) or names[mid] != got[i]:
            fail('%s: row %d is labelled %s but model_id %d is %s' % (
                what, i, got[i], mid, names[mid] if 0 <= mid < n else '?'), 'c04:model_id')
    if info.model_fluxes is None or len(info.model_fluxes) != n:
        fail('%s: predicted fluxes missing' % what, 'c04:model_fluxes_missing')
    inversions = any(names.index(got[i]) > names.index(got[i + 1]) for i in range(n - 1))
    if len(set(chi2)) < n:
        labels.add('tied_chi2')
    if chi2[-1] >= 1e30:
        labels.add('infinite_tier')
    return got, (n >= 3 and inversions)


def run_2d(case, ctx):
    labels = {'mode_2d', 'format_' + case['format']}
    names = case['grid']['names']
    float32 = bool(case.get('memmap'))
    k = of.extinction_pattern(case['law']['wav'], case['law']['chi'], [f['wav'] for f in case['filters']])
    nontrivial = False
    with ctx.tempdir() as d:
        gen.build_package_2d(d, case)
        for av_range in case['av_ranges']:
            with must_succeed('Fitter()'), quiet():
                fitter = gen.make_fitter(d, case, av_range)
            if case.get('memmap') or len(case['sources']) % 2 == 0:
                # a second Fitter on the same package (filters in reverse order) is made before the first one is used and
                # stays alive beside it: fitters do not share state
                with must_succeed('a second Fitter() on the same package'), quiet():
                    other = gen.make_fitter(d, gen.reversed_case(case), av_range)
                labels.add('second_fitter_alive')
            for src in case['sources']:
                probe = of.Ref2D(of.transform_source(src['flags'], src['flux'], src['err']),
                                 case['grid']['logflux'][0], k, av_range[0], av_range[1])
                if probe.singular or probe.cond > 1e10:
                    labels.add('singular_source_skipped')  # outside the domain of C01/C04
                    continue
                with must_succeed('Fitter.fit'), quiet():
                    info = fitter.fit(gen.source_object(src))
                what = 'source %s range %r' % (src['name'], av_range)
                got, nt = common_checks(info, names, labels, what)
                nontrivial = nontrivial or nt
                # chi2 (and optimality) per NAMED model
                c01mod.check_info(case, src, info, av_range, names, labels, float32)
                tol = 1e-9 if not float32 else 2e-6
                for i, name in enumerate(got):
                    m = names.index(name)
                    av, sc = float(info.av[i]), float(info.sc[i])
                    if not (av == av and sc == sc):
                        continue
                    for j in range(len(k)):
                        want = case['grid']['logflux'][m][j] + av * k[j] - 2. * sc
                        gotv = float(info.model_fluxes[i][j])
                        if not (abs(gotv - want) <= tol * (1. + abs(want))):
                            fail('%s row %d (%s): predicted log flux in band %d is %r, but log10 F_model + av*k - 2*sc = %r' % (
                                what, i, name, j, gotv, want), 'c04:model_fluxes')
            del fitter
    return labels, nontrivial


def run_3d(case, ctx):
    from astropy import units as u
    labels = {'mode_3d', 'format_' + case['format']}
    grid = case['grid']
    names = grid['names']
    float32 = bool(case.get('memmap'))
    k = of.extinction_pattern(case['law']['wav'], case['law']['chi'], [f['wav'] for f in case['filters']])
    dr = gen.distance_range_quantity(case['setup'])
    dk = [float(v) for v in dr.to(u.kpc).value]
    cand = of.distance_grid(dk[0], dk[1], case['setup']['step'])
    nontrivial = False
    with ctx.tempdir() as d:
        gen.build_package_3d(d, case)
        for av_range in case['av_ranges']:
            with must_succeed('Fitter()'), quiet():
                fitter = gen.make_fitter(d, case, av_range, distance_range=dr)
            if case.get('memmap') or len(case['sources']) % 2 == 0:
                with must_succeed('a second Fitter() on the same package'), quiet():
                    other = gen.make_fitter(d, gen.reversed_case(case), av_range, distance_range=dr)
                labels.add('second_fitter_alive')
            for src in case['sources']:
                bands = of.transform_source(src['flags'], src['flux'], src['err'])
                if not any(b[0] == 'fit' and kk != 0. for b, kk in zip(bands, k)):
                    labels.add('singular_source_skipped')
                    continue
                refs = [[of.Ref3D(bands, gen.tables_3d(case, m)[0], gen.tables_3d(case, m)[1], case['theta'], k, av_range[0], av_range[1], g)
                         for m in range(len(names))] for g in cand]
                with must_succeed('Fitter.fit'), quiet():
                    info = fitter.fit(gen.source_object(src))
                what = 'source %s' % src['name']
                got, nt = common_checks(info, names, labels, what)
                nontrivial = nontrivial or nt
                c02mod.check_source(case, src, info, refs, av_range, labels, float32)
                tol = 1e-9 if not float32 else 2e-6
                for i, name in enumerate(got):
                    m = names.index(name)
                    av, sc = float(info.av[i]), float(info.sc[i])
                    okrow = False
                    msg = None
                    for g in refs:
                        ref = g[m]
                        logd = [math.log10(x) for x in ref.distances]
                        js = [j for j, l in enumerate(logd) if abs(sc - l) <= 1e-10 * max(1., abs(l))]
                        if not js:
                            continue
                        row = ref.rows[js[0]]
                        bad = None
                        for j in range(len(k)):
                            want = row[j] + av * k[j]
                            gotv = float(info.model_fluxes[i][j])
                            if not (abs(gotv - want) <= tol * (1. + abs(want))):
                                bad = ('%s row %d (%s): predicted log flux in band %d is %r, but the model at d=%r kpc in that '
                                       'aperture plus av*k is %r' % (what, i, name, j, gotv, ref.distances[js[0]], want))
                                break
                        if bad is None:
                            okrow = True
                            break
                        msg = bad
                    if not okrow and msg is not None:
                        fail(msg, 'c04:model_fluxes')
            del fitter
    return labels, nontrivial


@st.composite
def _force_conf1(draw, case):
    """turn some limits into confidence-1 limits and add one if there is room (1e30 / 2e30 tiers)"""
    for s in case['sources']:
        for j, f in enumerate(s['flags']):
            if f in (2, 3) and draw(st.booleans()):
                s['err'][j] = 1.
            elif f in (0, 9) and draw(st.integers(0, 2)) == 0:
                s['flags'][j] = draw(st.sampled_from([2, 3]))
                s['flux'][j] = 10. ** draw(st.floats(-4., 4., allow_nan=False))
                s['err'][j] = 1.
    return case


@st.composite
def cases_2d(draw):
    c = draw(gen.fit_case_2d(max_models=10, max_filters=6, max_sources=3))
    gen.off_grid_requests(draw, c)
    n = len(c['grid']['names'])
    if n >= 3 and draw(st.booleans()):
        a, b = draw(st.integers(0, n - 1)), draw(st.integers(0, n - 1))
        if a != b:
            c['grid']['logflux'][b] = list(c['grid']['logflux'][a])
    return draw(_force_conf1(c))


@st.composite
def cases_3d(draw):
    c = draw(gen.fit_case_3d(max_models=8, max_filters=4, max_sources=3))
    gen.off_grid_requests(draw, c)
    n = len(c['grid']['names'])
    if n >= 3 and draw(st.booleans()):
        a, b = draw(st.integers(0, n - 1)), draw(st.integers(0, n - 1))
        if a != b:
            c['grid']['flux'][b] = [list(r) for r in c['grid']['flux'][a]]
    return draw(_force_conf1(c))


def sort_cases():
    import itertools
    alphabet = [0., 1., 1., 2.5, 1e30, float('inf'), float('nan')]
    for n in range(0, 6):
        for vec in itertools.product(alphabet, repeat=n):
            yield {'chi2': list(vec)}


@st.composite
def long_sort_case(draw):
    n = draw(st.integers(0, 60))
    vals = st.one_of(st.floats(0., 50., allow_nan=False), st.sampled_from([0., 1., 1., 1e30, 2e30, float('inf'), float('nan')]))
    return {'chi2': draw(st.lists(vals, min_size=n, max_size=n))}


def run_sort(case, ctx):
    """FitInfo.sort() on results that contain infinite / NaN chi^2 anywhere in package order (models rejected as resolved
    get +inf): every model exactly once, non-decreasing chi^2 (NaN incomparable), rows intact."""
    import numpy as np
    from props import c05 as c05mod
    chi2 = [float(v) for v in case['chi2']]
    n = len(chi2)
    info = c05mod.make_info(chi2, 2, with_fluxes=True)     # calls sort(); rows carry identity in every array
    rows = c05mod.rows_of(info, 'sorted result')
    if sorted(r[0] for r in rows) != ['model_%03d' % i for i in range(n)]:
        fail('chi2 %r in package order: after sort() the rows are %r - not every model exactly once' % (
            chi2, [r[0] for r in rows]), 'c04:not_permutation')
    for r in rows:
        i = int(r[0][-3:])
        want = chi2[i]
        same = (r[4] == want) or (r[4] != r[4] and want != want)
        if not same or r[1] != i or r[2] != 10. + i or r[3] != -1. - 0.25 * i or r[5][0] != 100. * i:
            fail('chi2 %r: after sort() the row labelled %s mixes values of different models: %r' % (chi2, r[0], r),
                 'c04:row_mixed')
    seq = [r[4] for r in rows if r[4] == r[4]]
    if any(a > b for a, b in zip(seq, seq[1:])):
        fail('chi2 %r: ranking %r is not non-decreasing' % (chi2, [r[4] for r in rows]), 'c04:not_sorted')
    labels = set()
    nonfinite_before_finite = any((chi2[i] != chi2[i] or chi2[i] == float('inf')) and any(
        chi2[j] == chi2[j] and chi2[j] != float('inf') for j in range(i + 1, n)) for i in range(n))
    if nonfinite_before_finite:
        labels.add('nonfinite_before_finite_in_package_order')
    return labels, n >= 3 and nonfinite_before_finite


ENTRIES = {'rank2d': run_2d, 'rank3d': run_3d, 'sortunit': run_sort, 'sortlong': run_sort}


def plan(ctx):
    ctx.run_given('rank2d', cases_2d(), ctx.scale(60, 1000))
    ctx.run_given('rank3d', cases_3d(), ctx.scale(40, 700))
    ctx.run_cases('sortunit', ctx.mine(sort_cases()))
    ctx.run_given('sortlong', long_sort_case(), ctx.scale(100, 2000))
