"""
C15 - flux unit conversions are mutually consistent and invertible.

SED files are written by the independent writer in each stored unit; SED.read(unit_flux=...) and convert_flux are
compared with an independent unit algebra in plain floats (cgs): F = nu*F_nu, L = F*d^2; A->B->A and A->B->C == A->C;
unsupported targets are refused.
"""
import os

import numpy as np
from hypothesis import strategies as st

from vlib import gen, pkgio
from vlib import oracle_misc as om
from vlib.runner import fail, must_succeed

PROPERTY_ID = 'C15'
LEVEL = 'exploration'
DESIGN_REF = 'DESIGN.md section 3, C15'
RULE = ('Hypothesis generates SED files (2..20 wavelengths in either storage order, 1..5 apertures, distance header '
        'present with a random distance or absent (1 kpc assumed), stored unit from {mJy, Jy, erg/cm^2/s, erg/s, W/m^2} '
        'under several spellings) and requested units B, C from the same set; checks read(A->B) against the reference, '
        'A->B->A identity, A->B->C == A->C via convert_flux, and that targets K / m / Hz are refused. Non-trivial = stored '
        'and requested units of different families (F_nu, F, L); distinct = distinct canonical JSON.')
RULE += (' ' + "Files in double or single precision ('E' columns), a quarter with faint fluxes (x 1e-16); cells whose value or intermediate leaves the single-precision range are not compared.")
RULE += (' ' + 'The FREQUENCY / WAVELENGTH columns (and the frequencies handed to convert_flux) are typed in Hz, MHz, GHz or THz / micron, nm or cm.')
RULE += (' ' + 'HDU 3 of the generated files holds the compulsory columns alone or with the optional stellar columns (own unit), in any order.')
ASSUMPTIONS = [
    'relative tolerance 1e-12 (a handful of float multiplications)',
    'luminosity-type values follow L = F*d^2 as the property states (no 4 pi)',
]

UNITS = ['mJy', 'Jy', 'erg/cm2/s', 'erg/s', 'W/m2']
SPELL = {'mJy': ['mJy'], 'Jy': ['Jy'], 'erg/cm2/s': ['erg cm-2 s-1', 'erg / (cm2 s)', 'ergs/cm^2/s'], 'erg/s': ['erg s-1', 'erg / s'],
         'W/m2': ['W m-2', 'W / m2']}
KPC = 3.0856775814913674e21


def U(name):
    from astropy import units as u
    return {'mJy': u.mJy, 'Jy': u.Jy, 'erg/cm2/s': u.erg / u.cm ** 2 / u.s, 'erg/s': u.erg / u.s, 'W/m2': u.W / u.m ** 2,
            'K': u.K, 'm': u.m, 'Hz': u.Hz}[name]


@st.composite
def cases(draw):
    nw = draw(st.integers(2, 20))
    nap = draw(st.integers(1, 5))
    wav = draw(gen.increasing(nw, 0.05, 3000., 1.01))
    A = draw(st.sampled_from(UNITS))
    return {'wav': wav, 'apertures': draw(gen.increasing(nap, 10., 1e5, 1.1)),
            'flux': [[draw(gen.logfloat(1e-8, 1e8)) for _ in range(nw)] for _ in range(nap)],
            'stored': A, 'spelling': draw(st.sampled_from(SPELL[A])), 'B': draw(st.sampled_from(UNITS)), 'C': draw(st.sampled_from(UNITS)),
            'distance_kpc': draw(st.one_of(st.none(), gen.logfloat(1e-3, 1e4))), 'storage': draw(st.sampled_from(['asc', 'desc'])),
            'bad_target': draw(st.sampled_from(['K', 'm', 'Hz'])),
            # the error column may be stored in its own unit (any of the supported ones)
            'err_stored': draw(st.one_of(st.none(), st.sampled_from(UNITS))),
            # model packages store SEDs in single precision ('E' columns); the faint ends of real SEDs reach 1e-30 mJy
            'dtype': draw(st.sampled_from(['D', 'D', 'E'])), 'faint': draw(st.integers(0, 3)) == 0,
            # the units the spectral columns of the file are typed in ("any frequency grid")
            'nu_unit': draw(st.sampled_from(['Hz', 'Hz', 'GHz', 'THz', 'MHz'])), 'wav_unit': draw(st.sampled_from(['um', 'um', 'nm', 'cm'])),
            # HDU 3 of the file: the two compulsory columns alone, or with the documented optional stellar columns (in their own
            # unit), in any order ("The order of the columns is not important")
            'hdu3_layout': draw(st.sampled_from(['standard', 'standard', 'stellar_last', 'stellar_first', 'err_first', 'interleaved'])),
            'stellar_unit': draw(st.sampled_from([None, 'Jy', 'mJy', 'erg/cm2/s']))}


NU_FACTOR = {'Hz': 1., 'HZ': 1., 'MHz': 1e6, 'GHz': 1e9, 'THz': 1e12}
WAV_FACTOR = {'um': 1., 'MICRONS': 1., 'nm': 1e3, 'cm': 1e-4}


def run_case(case, ctx):
    from astropy import units as u
    from sedfitter.sed import SED
    from sedfitter.sed.helpers import convert_flux
    A, B, C = case['stored'], case['B'], case['C']
    labels = {'stored_' + A, 'requested_' + B, 'no_distance_header' if case['distance_kpc'] is None else 'distance_header'}
    dcm = KPC * (1. if case['distance_kpc'] is None else case['distance_kpc'])
    wav = case['wav']
    nw, nap = len(wav), len(case['apertures'])
    idx = list(range(nw)) if case['storage'] == 'asc' else list(range(nw))[::-1]
    single = case.get('dtype', 'D') == 'E'
    scale = 1e-16 if case.get('faint') else 1.
    f32 = (lambda v: float(np.float32(v))) if single else (lambda v: v)
    # the values the file holds (single precision files hold the nearest float32)
    case = dict(case, flux=[[f32(v * scale) for v in row] for row in case['flux']])
    err = [[f32(0.1 * v) for v in row] for row in case['flux']]
    rtol = 2e-6 if single else 1e-12
    labels.add('single_precision_file' if single else 'double_precision_file')
    if case.get('faint'):
        labels.add('faint_fluxes')

    def representable(*vals):
        # (until fix 1eeda98 the library did its arithmetic in the precision of the file and values outside the single-
        #  precision range had to be left out; it now works and answers in double precision, so every value is compared)
        return True
    E = case.get('err_stored') or A
    espell = case['spelling'] if E == A else SPELL[E][0]
    if E != A:
        labels.add('error_column_in_another_unit')
    with ctx.tempdir() as d:
        path = os.path.join(d, 'x_sed.fits')
        swav = [wav[i] for i in idx]
        legacy = case['spelling'] == 'ergs/cm^2/s'
        nu_unit = 'HZ' if legacy else case.get('nu_unit', 'Hz')
        wav_unit = 'MICRONS' if legacy else case.get('wav_unit', 'um')
        nfac, wfac = NU_FACTOR[nu_unit], WAV_FACTOR[wav_unit]
        labels.add('spectral_columns_in_%s_%s' % (nu_unit, wav_unit))
        stellar_unit = None if case.get('stellar_unit') is None else SPELL[case['stellar_unit']][0]
        labels.add('hdu3_' + case.get('hdu3_layout', 'standard'))
        file_nu = [v / nfac for v in pkgio.wav_to_nu(swav)]
        file_wav = [w * wfac for w in swav]

        def nu_hz(w):
            # the frequency the file states for the wavelength w (single precision files hold the nearest float32)
            return f32(om.C_UM_HZ / w / nfac) * nfac
        pkgio.write_sed_file(path, 'x', file_wav, file_nu, case['apertures'],
                             [[row[i] for i in idx] for row in case['flux']], [[row[i] for i in idx] for row in err],
                             flux_unit=case['spelling'], err_unit=espell, distance_cm=None if case['distance_kpc'] is None else dcm,
                             wav_unit=wav_unit, nu_unit=nu_unit, dtype=case.get('dtype', 'D'),
                             hdu3_layout=case.get('hdu3_layout', 'standard'), stellar_unit=stellar_unit)
        with must_succeed('SED.read(unit_flux=%s) of a file stored in %r' % (B, case['spelling'])):
            s = SED.read(path, unit_flux=U(B), order='wav')
        got = np.asarray(s.flux.to(U(B)).value)
        gote = np.asarray(s.error.to(U(B)).value)
        sw = s.wav.to(u.micron).value
        for a in range(nap):
            for p in range(nw):
                nu = nu_hz(wav[p])
                want = om.convert_flux_ref(case['flux'][a][p], nu, A, B, dcm)
                wante = om.convert_flux_ref(err[a][p], nu, E, B, dcm)
                if not (abs(sw[p] - wav[p]) <= (1e-6 if single else 1e-12) * wav[p]):
                    fail('wavelength axis changed', 'c15:axis')
                if not representable(want, wante, om.convert_flux_ref(case['flux'][a][p], nu, A, 'erg/cm2/s', dcm),
                                     om.convert_flux_ref(err[a][p], nu, E, 'erg/cm2/s', dcm)):
                    labels.add('value_outside_single_precision_range_not_compared')
                    continue
                if not (abs(got[a][p] - want) <= rtol * abs(want)) or not (abs(gote[a][p] - wante) <= rtol * abs(wante)):
                    fail('file stored in %s (%r), distance %s: value %r at %r micron read as %r %s, F=nu*F_nu / L=F*d^2 give %r' % (
                        A, case['spelling'], 'absent (1 kpc)' if case['distance_kpc'] is None else '%r kpc' % case['distance_kpc'],
                        case['flux'][a][p], wav[p], got[a][p], B, want), 'c15:read_conversion')
        # a second file on the same frequency grid but at another distance, read right after the first
        d2cm = dcm * 3.
        path2 = os.path.join(d, 'y_sed.fits')
        pkgio.write_sed_file(path2, 'y', file_wav, file_nu, case['apertures'],
                             [[row[i] for i in idx] for row in case['flux']], [[row[i] for i in idx] for row in err],
                             flux_unit=case['spelling'], err_unit=espell, distance_cm=d2cm,
                             wav_unit=wav_unit, nu_unit=nu_unit, dtype=case.get('dtype', 'D'),
                             hdu3_layout=case.get('hdu3_layout', 'standard'), stellar_unit=stellar_unit)
        with must_succeed('SED.read of a second file'):
            s2 = SED.read(path2, unit_flux=U(B), order='wav')
        got2 = np.asarray(s2.flux.to(U(B)).value)
        for a in range(nap):
            for p in range(nw):
                want = om.convert_flux_ref(case['flux'][a][p], nu_hz(wav[p]), A, B, d2cm)
                if not representable(want, om.convert_flux_ref(case['flux'][a][p], nu_hz(wav[p]), A, 'erg/cm2/s', d2cm)):
                    continue
                if not (abs(got2[a][p] - want) <= rtol * abs(want)):
                    fail('a second file (same frequencies, distance %r cm instead of %r cm) stored in %s read as %s gives %r, '
                         'F=nu*F_nu / L=F*d^2 with ITS distance give %r' % (d2cm, dcm, A, B, got2[a][p], want), 'c15:distance_of_other_file')
        # the same SED written by the library's own writer (flux in A, errors in E) and read in B
        from vlib import gen as _g  # noqa
        so = SED()
        with must_succeed('building and writing an SED with SED.write'):
            so.name = 'z'
            so.distance = dcm * u.cm
            so.wav = (np.array(wav) * u.micron).to(u.Unit(case.get('wav_unit', 'um')))
            so.nu = so.wav.to(u.Unit(case.get('nu_unit', 'Hz')), equivalencies=u.spectral())
            so.apertures = np.array(case['apertures']) * u.au
            so.flux = np.array(case['flux']) * U(A)
            so.error = np.array(err) * U(E)
            path3 = os.path.join(d, 'z_sed.fits')
            so.write(path3)
        with must_succeed('SED.read of a file written by SED.write'):
            s3 = SED.read(path3, unit_flux=U(B), order='wav')
        g3, e3 = np.asarray(s3.flux.to(U(B)).value), np.asarray(s3.error.to(U(B)).value)
        for a in range(nap):
            for p in range(nw):
                nu_p = float(so.nu[p].to(u.Hz).value)
                want = om.convert_flux_ref(case['flux'][a][p], nu_p, A, B, dcm)
                wante = om.convert_flux_ref(err[a][p], nu_p, E, B, dcm)
                if not (abs(g3[a][p] - want) <= 1e-12 * abs(want)) or not (abs(e3[a][p] - wante) <= 1e-12 * abs(wante)):
                    fail('SED written by SED.write with flux in %s and errors in %s, read in %s: %r +- %r, expected %r +- %r' % (
                        A, E, B, g3[a][p], e3[a][p], want, wante), 'c15:library_written_file')
        # refused targets
        bad = case['bad_target']
        try:
            SED.read(path, unit_flux=U(bad))
        except Exception:  # noqa: any refusal is fine
            labels.add('refused_' + bad)
        else:
            fail('SED.read accepted the unsupported flux unit %s' % bad, 'c15:unsupported_accepted')
    # direct conversions: A -> B -> A and A -> B -> C == A -> C
    nu = (np.array([om.C_UM_HZ / w for w in wav]) * u.Hz).to(u.Unit(case.get('nu_unit', 'Hz')))
    fa = np.array(case['flux']) * U(A)
    dist = dcm * u.cm
    with must_succeed('convert_flux %s -> %s -> %s / %s' % (A, B, A, C)):
        fb = convert_flux(nu, fa, U(B), distance=dist)
        faa = convert_flux(nu, fb, U(A), distance=dist)
        fbc = convert_flux(nu, fb, U(C), distance=dist)
        fc = convert_flux(nu, fa, U(C), distance=dist)
    if faa.unit != U(A) or fb.unit != U(B) or fc.unit != U(C):
        fail('convert_flux returned %s / %s / %s for targets %s / %s / %s' % (fb.unit, faa.unit, fc.unit, B, A, C), 'c15:result_unit')
    x, y = np.asarray(faa.value), np.asarray(fa.value)
    if np.any(np.abs(x - y) > 1e-12 * np.abs(y)):
        fail('%s -> %s -> %s is not the identity: %r vs %r' % (A, B, A, x.ravel()[:3], y.ravel()[:3]), 'c15:not_invertible')
    x, y = np.asarray(fbc.value), np.asarray(fc.value)
    if np.any(np.abs(x - y) > 1e-12 * np.abs(y)):
        fail('%s -> %s -> %s differs from %s -> %s' % (A, B, C, A, C), 'c15:not_transitive')
    try:
        convert_flux(nu, fa, U(case['bad_target']), distance=dist)
    except Exception:  # noqa
        pass
    else:
        fail('convert_flux accepted the unsupported target %s' % case['bad_target'], 'c15:unsupported_accepted')
    return labels, om.FAMILY[A] != om.FAMILY[B]


ENTRIES = {'units': run_case}


def plan(ctx):
    ctx.run_given('units', cases(), ctx.scale(80, 1500))
