#!/venv/bin/python
"""
Writes the briefs for a new round of seeded-change sub-agents (DESIGN.md 7.2) from the briefs of the previous round:
same text, new worktree name, the kind of commit rotated by one, and the mechanism found in the previous round appended
to the list of mechanisms already studied.  Creates the scratch worktrees under /tmp/seed as well.

usage: make_seed_prompts.py <previous round prefix, e.g. R9> <new prefix, e.g. R10>
"""
import os
import re
import sys
import json
import subprocess

VERIF = os.path.dirname(os.path.dirname(os.path.abspath(__file__)))
prev, new = sys.argv[1], sys.argv[2]
kinds = []
for i in range(1, 6):
    t = open('/tmp/seed/%sC%02d.prompt.txt' % (prev, i)).read()
    kinds.append(re.search(r'of this kind: (.*?) Do it the way a competent maintainer', t, re.S).group(1))
for i in range(1, 21):
    old, cur = '%sC%02d' % (prev, i), '%sC%02d' % (new, i)
    t = open('/tmp/seed/%s.prompt.txt' % old).read()
    k = re.search(r'of this kind: (.*?) Do it the way a competent maintainer', t, re.S).group(1)
    t = t.replace(k, kinds[(kinds.index(k) + 1) % 5])
    mp = os.path.join(VERIF, 'seeded', old, 'meta.json')
    if os.path.exists(mp):
        m = json.load(open(mp))
        bullet = '  * %s: %s\n' % (', '.join(m['files']), m['needs'])
        lines = t.split('\n')
        last = max(j for j, l in enumerate(lines) if l.startswith('  * '))
        lines.insert(last + 1, bullet.rstrip('\n'))
        t = '\n'.join(lines)
    t = t.replace(old, cur)
    open('/tmp/seed/%s.prompt.txt' % cur, 'w').write(t)
    wt = '/tmp/seed/' + cur
    subprocess.run(['git', '-C', '/repo', 'worktree', 'remove', '--force', wt], capture_output=True)
    r = subprocess.run(['git', '-C', '/repo', 'worktree', 'add', '-q', '--detach', wt, 'HEAD'], capture_output=True, text=True)
    print(cur, r.returncode, r.stderr.strip()[:100])
