"""Regenerates /verif/MANIFEST.json from the property modules that exist (run by hand after adding a check)."""
import os
import sys
import json
import importlib

HERE = os.path.dirname(os.path.dirname(os.path.abspath(__file__)))
sys.path.insert(0, HERE)

TEXT = {
    'C01': ('exploration', 'hypothesis @given + exact-rational reference fitter (differential oracle)',
            'Thousands of generated (package, law, A_V range, source) cases; every model of every fit is compared with a '
            'reference least-squares solver in exact rational arithmetic (feasibility, objective-gap optimality, parameters, '
            'chi^2 = minimum + penalties). Sampling of a continuous domain: strong evidence, not proof.'),
    'C02': ('exploration', 'hypothesis @given + reference distance-grid fitter (differential oracle)',
            'Generated aperture-dependent packages in both formats (aperture tables stored in any order and unit, per-filter tables, '
            'shared angular apertures); the distance grid, aperture interpolation, (1kpc/d)^2 scaling, clipped 1-parameter optimum '
            'and grid minimum are recomputed by an independent reference.'),
    'C03': ('exploration', 'exhaustive flag-vector enumeration x generated photometry, metamorphic pairs',
            'Every flag vector in {0,1,2,3,4,9}^n (n<=4 quick, n<=5 thorough) is enumerated; for each, paired fits that differ '
            'only in ignored / equivalent content are compared in both fitting modes.'),
    'C04': ('exploration', 'hypothesis @given + per-row recomputation from the named model',
            'Generated fits with forced ties and 1e30 tiers; permutation, ordering and per-row consistency are checked against values '
            'recomputed from the model named in each row; FitInfo.sort() is additionally enumerated over all chi^2 vectors of '
            'length <=5 with inf/NaN anywhere in package order.'),
    'C05': ('exploration', 'exhaustive enumeration + hypothesis stateful machine vs list model',
            'All chi^2 vectors of length 0..5 over an alphabet with ties/inf/NaN x all selector forms are enumerated against a '
            'reference predicate; longer vectors and keep() compositions (interleaved with in-place edits of the source flags and with '
            'round trips through a fit file shared by several states of the same objects) are explored with a rule-based state machine.'),
    'C06': ('exploration', 'hypothesis @given + exact piecewise-linear integrator (differential + metamorphic)',
            'Generated filters and SED grids on an integer lattice (forcing coincidences) and irregular grids; each rebinned '
            'response is compared with an exact Fraction integral; sum, normalisation, linearity and quadrature are checked.'),
    'C07': ('exploration', 'hypothesis @given, independent FITS writer/reader, per-file vs cube differential',
            'Generated packages emitted in both formats by an independent writer; convolved files are read by an independent '
            'reader and compared row by row with reference integrals and with each other; fits from all variants compared (incl. that '
            'per-file and cube variants use one distance grid for ranges that are a whole number of steps up to rounding).'),
    'C08': ('exploration', 'hypothesis @given end-to-end planted-model recovery',
            'Planted (model, A_V, scale/distance) photometry for 1..3 sources per data file is pushed through convolve -> fit -> '
            'write_parameters (parameter rows optionally re-ordered after convolution, SED files / cubes stored in several units) '
            'and the first record / listing rows must recover each plant.'),
    'C09': ('exploration', 'hypothesis @given + text re-parsing against the unpermuted abstract table',
            'Generated FitInfo objects and permuted parameter files; the three text outputs are parsed back and compared by '
            'model name with the abstract table.'),
    'C10': ('exploration', 'hypothesis @given + stateful post-processing sequences, file vs object differential',
            'Generated data files and fit() configurations; records read back are compared bit-exactly with the object '
            'interface; sequences of post-processing calls are run on the three input forms and compared.'),
    'C11': ('exploration', 'hypothesis metamorphic pairs + stateful interleavings on one Fitter',
            'Permutation / scaling relations on generated packages; a rule-based machine interleaves fits on one fitter and '
            'compares with a fresh fitter bit-exactly, and snapshots the source before/after.'),
    'C12': ('exploration', 'hypothesis @given write/read round trips + independent reader',
            'Generated SEDs, cubes and convolved-flux tables in every configuration of the quantifier are written and read '
            'back; every cell is compared, and files are cross-read by an independent reader.'),
    'C13': ('exploration', 'hypothesis @given + hand-written linear interpolant',
            'Generated aperture tables and requests on/between/above/below knots compared with a reference interpolant.'),
    'C14': ('exploration', 'hypothesis @given + direct formula, metamorphic unit/scale invariance',
            'Generated opacity tables and query wavelengths; compared with the direct formula; invariances and round trips.'),
    'C15': ('exploration', 'hypothesis @given + independent cgs unit algebra, A->B->A / A->B->C relations',
            'Generated SED files in each stored unit, read in each requested unit, compared with plain-float unit algebra.'),
    'C16': ('exploration', 'exhaustive chunk-size x window enumeration over generated packages',
            'For generated small packages every chunk size 1..n_wav and every window is enumerated; file set, contents and '
            'returned table are compared with a reference and across chunk sizes.'),
    'C17': ('exploration', 'hypothesis @given over fits of cube and per-file packages, LineCollection inspection',
            'Generated cube packages and per-file packages (SED files plain / .gz / in sub-directories) fitted at tabulated wavelengths; the returned LineCollection is compared with the stored '
            'predicted fluxes, curve counts and drawing order.'),
    'C18': ('exploration', 'hypothesis @given + multiset/ordering oracle on the two output files',
            'Generated FitInfo sequences split by chi/cpd; outputs read back and compared bit-exactly with the input.'),
    'C19': ('fault_enumeration', 'exhaustive truncation-offset enumeration of generated files',
            'Every truncation offset 0..len-1 of generated fit output files is tried (files holding a record of thousands of fits '
            'are sampled densely at both ends and around record boundaries; records built from fresh objects or from one re-used Source '
            'object); reading must raise or give an exact prefix of the written records.'),
    'C20': ('exploration', 'hypothesis @given + reference parser, every column count per line',
            'Generated data lines x every column count 0..3n+6 against a reference parser written from data.rst; ascii, '
            'dict and pickle round trips.'),
}

NOTE = {
    'default': 'Trusted base: CPython, numpy, astropy.io.fits, Hypothesis, and the reference oracle in /verif/vlib and '
               'the property module; sedfitter is imported from /repo\'s working tree in a fresh interpreter.',
}


def main():
    checks = []
    not_applicable = []
    ids = [json.loads(l)['id'] for l in open(os.path.join(HERE, 'properties.jsonl'))]
    for pid in ids:
        modfile = os.path.join(HERE, 'props', pid.lower() + '.py')
        if not os.path.exists(modfile):
            not_applicable.append({'property_id': pid, 'reason': 'check designed (DESIGN.md section 3) but not built yet'})
            continue
        mod = importlib.import_module('props.' + pid.lower())
        level, technique, text = TEXT[pid]
        assert level == mod.LEVEL, pid
        base = 'PYTHONHASHSEED=0 /venv/bin/python vcheck.py %s --tier %s'
        checks.append({
            'property_id': pid,
            'quick_cmd': base % (pid, 'quick'),
            'thorough_cmd': base % (pid, 'thorough'),
            'evidence_file': 'evidence/%s.json' % pid,
            'replay_cmd_template': 'PYTHONHASHSEED=0 /venv/bin/python vcheck.py %s --replay {path}' % pid,
            'engine': 'vcheck',
            'level_claimed': {'category': level, 'text': text, 'design_ref': mod.DESIGN_REF},
            'level_note': NOTE['default'] + ' ' + ' '.join(getattr(mod, 'ASSUMPTIONS', [])[:3]),
            'technique': technique,
        })
    hooks_commits = []
    manifest = {
        'version': 1,
        'setup_cmd': '/venv/bin/python setup_deps.py',
        'hooks': {
            'guard': 'SEDFITTER_VERIF',
            'enable': 'no instrumentation is needed: every observation point is a public return value, attribute or '
                      'output file; checks import sedfitter from /repo\'s working tree as it is',
            'baseline_off_cmd': 'cd /repo && /venv/bin/python -m pytest -ra -q -p no:cacheprovider --timeout=900 '
                                '--continue-on-collection-errors',
            'source_commits': hooks_commits,
            'add_only': True,
        },
        'engines': [{
            'name': 'vcheck', 'path': 'vcheck.py',
            'serves_properties': [c['property_id'] for c in checks],
            'kind_free_text': 'Hypothesis 6.168 (@given, rule-based state machines) + exhaustive enumeration of finite '
                              'sub-domains, 16 forked shards, explicit reference oracles (vlib/)',
        }],
        'checks': checks,
        'not_applicable': not_applicable,
        'notes': 'Every check: exit 0 held / exit 1 + VIOLATION line / exit 2 harness error. VERIF_SEED seeds Hypothesis '
                 '(per shard); committed replays in replays/<id>/ run first. See DESIGN.md.',
    }
    with open(os.path.join(HERE, 'MANIFEST.json'), 'w') as f:
        json.dump(manifest, f, indent=1)
        f.write('\n')
    try:
        import jsonschema
        jsonschema.validate(manifest, json.load(open('/root/.vp/MANIFEST.schema.json')))
        print('MANIFEST valid; %d checks, %d not_applicable' % (len(checks), len(not_applicable)))
    except ImportError:
        print('written (jsonschema not available)')


if __name__ == '__main__':
    from vlib import runner
    runner.ensure_deps()
    sys.path.insert(0, runner.REPO)
    main()
