#!/venv/bin/python
"""
Confirms a seeded change produced by a sub-agent in a scratch worktree and stores it under /verif/seeded/<id>/.

usage: eval_seed.py <Cxx> <worktree> [--name NAME] [--checks C01,C04] [--tier quick]

Steps (all in the scratch worktree, never in /repo):
  1. git diff -- sedfitter  -> patch
  2. the existing test suite with the change (must still pass)
  3. demo_seed.py with the change (must fail) and without it (must pass)
  4. the registered check(s) with VERIF_REPO pointing at the worktree (evidence / found replays redirected)
"""
import os
import sys
import json
import shutil
import subprocess

VERIF = os.path.dirname(os.path.dirname(os.path.abspath(__file__)))


def sh(cmd, cwd=None, env=None, timeout=3600):
    r = subprocess.run(cmd, shell=True, cwd=cwd, env=env, capture_output=True, text=True, timeout=timeout)
    return r.returncode, (r.stdout + r.stderr)


def main():
    args = sys.argv[1:]
    pid, wt = args[0].upper(), os.path.abspath(args[1])
    name = pid
    checks = [pid]
    tier = 'quick'
    i = 2
    while i < len(args):
        if args[i] == '--name':
            name = args[i + 1]
        elif args[i] == '--checks':
            checks = args[i + 1].split(',')
        elif args[i] == '--tier':
            tier = args[i + 1]
        i += 2
    out = os.path.join(VERIF, 'seeded', name)
    os.makedirs(out, exist_ok=True)
    rc, patch = sh('git diff -- sedfitter', cwd=wt)
    if not patch.strip():
        print('no change in', wt)
        return 2
    open(os.path.join(out, 'patch.diff'), 'w').write(patch)
    demo = os.path.join(wt, 'demo_seed.py')
    if os.path.exists(demo):
        shutil.copy(demo, os.path.join(out, 'demo_seed.py'))
    meta = {'property': pid, 'files': sorted(set(l[6:] for l in patch.splitlines() if l.startswith('+++ b/')))}
    env = dict(os.environ, PYTHONDONTWRITEBYTECODE='1')
    # 2. test suite with the change
    rc, o = sh('/venv/bin/python -m pytest -q -p no:cacheprovider --timeout=900 2>&1 | tail -3', cwd=wt, env=env)
    meta['tests_with_change'] = o.strip().splitlines()[-1] if o.strip() else ''
    # 3. demo with and without
    rc1, o1 = sh('/venv/bin/python demo_seed.py 2>&1 | tail -5', cwd=wt, env=env)
    rc1 = subprocess.run(['/venv/bin/python', 'demo_seed.py'], cwd=wt, env=env, capture_output=True).returncode
    # (no `git stash`: the stash is shared by all worktrees of a repository)
    sh('git checkout -- sedfitter', cwd=wt)
    try:
        rc0 = subprocess.run(['/venv/bin/python', 'demo_seed.py'], cwd=wt, env=env, capture_output=True).returncode \
            if os.path.exists(demo) else None
    finally:
        subprocess.run(['git', 'apply', os.path.join(out, 'patch.diff')], cwd=wt, check=True)
    meta['demo_exit_with_change'] = rc1
    meta['demo_exit_without_change'] = rc0
    meta['demo_output_with_change'] = o1.strip()[-600:]
    # 4. our checks
    meta['checks'] = {}
    for c in checks:
        e = dict(env, VERIF_REPO=wt, PYTHONHASHSEED='0', VERIF_EVIDENCE_DIR=os.path.join(wt, '.verif_evidence'),
                 VERIF_FOUND_DIR=os.path.join(out, 'found'))
        r = subprocess.run(['/venv/bin/python', os.path.join(VERIF, 'vcheck.py'), c, '--tier', tier], cwd=VERIF, env=e,
                           capture_output=True, text=True)
        lines = [l for l in r.stdout.splitlines() if l.startswith(('violation', 'VIOLATION', 'HARNESS', c))]
        meta['checks'][c] = {'tier': tier, 'exit': r.returncode, 'output': [l[:400] for l in lines][:4]}
        print(c, 'exit', r.returncode, '|', (lines[0][:200] if lines else ''))
    shutil.rmtree(os.path.join(wt, '.verif_evidence'), ignore_errors=True)
    prev = {}
    mp = os.path.join(out, 'meta.json')
    if os.path.exists(mp):
        prev = json.load(open(mp))
    prev.update(meta)
    json.dump(prev, open(mp, 'w'), indent=1, sort_keys=True)
    print(json.dumps({k: meta[k] for k in ('tests_with_change', 'demo_exit_with_change', 'demo_exit_without_change')}))
    return 0


if __name__ == '__main__':
    sys.exit(main())
