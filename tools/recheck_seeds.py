#!/venv/bin/python
"""
Re-validates every stored seeded change against the CURRENT /repo HEAD and the current checks.

For each seeded/<name>/patch.diff: fresh scratch worktree of HEAD under /tmp/seedchk/<name>, `git apply`, run the quick
check of the target property (plus any extra checks given as name:Cxx,Cyy) with VERIF_REPO pointing at the worktree,
record exit codes in meta.json['recheck'], remove the worktree.      usage: recheck_seeds.py [-j N] [name ...]
"""
import os
import sys
import json
import glob
import shutil
import subprocess
from concurrent.futures import ThreadPoolExecutor

VERIF = os.path.dirname(os.path.dirname(os.path.abspath(__file__)))
ROOT = '/tmp/seedchk'


def one(name):
    d = os.path.join(VERIF, 'seeded', name)
    meta = json.load(open(os.path.join(d, 'meta.json')))
    wt = os.path.join(ROOT, name)
    subprocess.run(['git', '-C', '/repo', 'worktree', 'remove', '--force', wt], capture_output=True)
    shutil.rmtree(wt, ignore_errors=True)
    r = subprocess.run(['git', '-C', '/repo', 'worktree', 'add', '-q', '--detach', wt, 'HEAD'], capture_output=True, text=True)
    if r.returncode:
        return name, 'worktree failed: ' + r.stderr, {}
    try:
        r = subprocess.run(['git', 'apply', os.path.join(d, 'patch.diff')], cwd=wt, capture_output=True, text=True)
        if r.returncode:
            r = subprocess.run(['git', 'apply', '-3', os.path.join(d, 'patch.diff')], cwd=wt, capture_output=True, text=True)
            if r.returncode:
                return name, 'patch does not apply to HEAD: ' + r.stderr[:200], {}
        out = {}
        for c in meta.get('recheck_checks', [meta['property']]):
            env = dict(os.environ, VERIF_REPO=wt, PYTHONHASHSEED='0', PYTHONDONTWRITEBYTECODE='1', VERIF_SHARDS='8',
                       VERIF_EVIDENCE_DIR=os.path.join(wt, '.ev'), VERIF_FOUND_DIR=os.path.join(wt, '.found'))
            r = subprocess.run(['/venv/bin/python', os.path.join(VERIF, 'vcheck.py'), c, '--tier', 'quick'], cwd=VERIF, env=env,
                               capture_output=True, text=True)
            msg = [l for l in r.stdout.splitlines() if l.startswith(('violation', 'regression input fails', 'HARNESS'))]
            out[c] = {'exit': r.returncode, 'first': msg[0][:300] if msg else ''}
        meta['recheck'] = out
        json.dump(meta, open(os.path.join(d, 'meta.json'), 'w'), indent=1, sort_keys=True)
        return name, 'ok', out
    finally:
        subprocess.run(['git', '-C', '/repo', 'worktree', 'remove', '--force', wt], capture_output=True)
        shutil.rmtree(wt, ignore_errors=True)


def main():
    args = sys.argv[1:]
    jobs = 2
    if args[:1] == ['-j']:
        jobs = int(args[1])
        args = args[2:]
    names = args or sorted(os.path.basename(os.path.dirname(p)) for p in glob.glob(os.path.join(VERIF, 'seeded', '*', 'patch.diff')))
    os.makedirs(ROOT, exist_ok=True)
    bad = 0
    with ThreadPoolExecutor(max_workers=jobs) as ex:
        for name, status, out in ex.map(one, names):
            if status != 'ok':
                print('%-8s %s' % (name, status))
                bad += 1
                continue
            for c, v in out.items():
                verdict = {1: 'CAUGHT', 0: 'MISSED', 2: 'HARNESS-ERROR'}.get(v['exit'], str(v['exit']))
                bad += v['exit'] != 1
                print('%-8s %s %-8s %s' % (name, c, verdict, v['first'][:170]))
    subprocess.run(['git', '-C', '/repo', 'worktree', 'prune'])
    print('not caught / problems: %d' % bad)
    return 1 if bad else 0


if __name__ == '__main__':
    sys.exit(main())
