#!/bin/bash
# Runs every registered quick (or $1=thorough) check on /repo's working tree and refreshes evidence/.
cd "$(dirname "$0")/.."
tier=${1:-quick}
rc=0
for id in $(/venv/bin/python -c "import json;print(' '.join(c['property_id'] for c in json.load(open('MANIFEST.json'))['checks']))"); do
  PYTHONHASHSEED=0 /venv/bin/python vcheck.py $id --tier $tier | tail -4 || true
  s=${PIPESTATUS[0]}
  if [ "$s" != "0" ]; then echo "  -> $id exit $s"; rc=1; fi
done
exit $rc
