"""MANIFEST.setup_cmd: make hypothesis and jsonschema importable (offline wheelhouse)."""
import os
import sys
sys.path.insert(0, os.path.dirname(os.path.abspath(__file__)))
from vlib import runner
runner.ensure_deps()
import hypothesis, jsonschema  # noqa
print('deps ok: hypothesis', hypothesis.__version__)
