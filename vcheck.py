#!/venv/bin/python
"""CLI of every registered check:  vcheck.py <Cxx> --tier quick|thorough [--replay FILE]"""
import os
import sys

sys.path.insert(0, os.path.dirname(os.path.abspath(__file__)))
os.environ.setdefault('PYTHONHASHSEED', '0')

from vlib import runner  # noqa

if __name__ == '__main__':
    sys.exit(runner.main())
