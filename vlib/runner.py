"""
Runner shared by every property check.

Contract (see DESIGN.md section 1.1):
  exit 0  property held on everything explored
  exit 1  + line "VIOLATION property=<id> replay=<path>"
  exit 2  harness error (never reported as a violation)

A property module (props/cXX.py) exposes

  PROPERTY_ID, LEVEL, RULE, ASSUMPTIONS, DESIGN_REF
  ENTRIES   : {entry_name: run_case}       run_case(case, ctx) -> (labels, nontrivial)
  MACHINES  : {entry_name: machine_class}  (optional; TracedMachine subclasses)
  plan(ctx) : drives ctx.run_given / ctx.run_enum / ctx.run_machine for one shard
  EXHAUSTIVE: bool (optional) whether plan() enumerates a finite sub-domain completely

Cases are plain JSON values (dict / list / str / int / float / bool / None); Python's
json module writes floats with repr(), which round-trips bit-exactly, and it reads back
NaN / Infinity, so a replay file reproduces the failing case exactly.
"""
from __future__ import print_function

import os
import sys
import json
import time
import glob
import shutil
import signal
import hashlib
import tempfile
import traceback
import importlib
import contextlib
import collections
import multiprocessing

VERIF_DIR = os.path.dirname(os.path.dirname(os.path.abspath(__file__)))
REPO = os.environ.get('VERIF_REPO', '/repo')
NSHARDS = int(os.environ.get('VERIF_SHARDS', '16'))

for _v in ('OMP_NUM_THREADS', 'OPENBLAS_NUM_THREADS', 'MKL_NUM_THREADS'):
    os.environ.setdefault(_v, '1')
os.environ.setdefault('MPLBACKEND', 'Agg')
os.environ.setdefault('MPLCONFIGDIR', os.path.join(tempfile.gettempdir(), 'verif-mpl'))


def ensure_deps():
    """hypothesis + jsonschema, installed offline beside the repository's packages."""
    deps = os.path.join(VERIF_DIR, '.deps')
    if os.path.isdir(deps) and deps not in sys.path:
        sys.path.insert(0, deps)
    missing = []
    for name in ('hypothesis', 'jsonschema'):
        try:
            importlib.import_module(name)
        except ImportError:
            missing.append(name)
    if missing:
        import subprocess
        subprocess.check_call([sys.executable, '-m', 'pip', 'install', '-q', '--no-index',
                               '--find-links', '/opt/veriftools/wheels',
                               '--target', deps] + missing,
                              stdout=subprocess.DEVNULL)
        if deps not in sys.path:
            sys.path.insert(0, deps)
        importlib.invalidate_caches()
        for name in missing:
            importlib.import_module(name)


class Violation(Exception):
    """The property is broken on this case (not a harness problem)."""

    def __init__(self, message, signature=None):
        Exception.__init__(self, message)
        self.message = message
        self.signature = signature or 'unclassified'


class HarnessError(Exception):
    pass


def fail(message, signature=None):
    raise Violation(message, signature)


@contextlib.contextmanager
def must_succeed(what, signature=None, allow=()):
    """Code under test that the property says must not raise."""
    try:
        yield
    except Violation:
        raise
    except allow:
        raise
    except Exception as exc:  # noqa
        tb = traceback.extract_tb(sys.exc_info()[2])
        where = ''
        for fr in reversed(tb):
            if '/sedfitter/' in fr.filename:
                where = ' at %s:%s' % (fr.filename.split('/sedfitter/', 1)[1], fr.name)
                break
        raise Violation('%s raised %s: %s%s' % (what, type(exc).__name__, str(exc)[:300], where),
                        signature or ('raises:%s%s' % (type(exc).__name__, where)))


@contextlib.contextmanager
def quiet():
    """sedfitter prints progress to stdout; keep the check's own stdout clean."""
    devnull = open(os.devnull, 'w')
    old_out, old_err = sys.stdout, sys.stderr
    sys.stdout = devnull
    sys.stderr = devnull
    try:
        yield
    finally:
        sys.stdout, sys.stderr = old_out, old_err
        devnull.close()


def canonical(case):
    return json.dumps(case, sort_keys=True, separators=(',', ':'), allow_nan=True)


def digest(case):
    return hashlib.sha1(canonical(case).encode('utf-8')).digest()[:10]


def load_known():
    path = os.path.join(VERIF_DIR, 'known_findings.json')
    if not os.path.exists(path):
        return {}
    data = json.load(open(path))
    out = {}
    for f in data.get('findings', []):
        out[(f['property'], f['signature'])] = f.get('what', f['signature'])
    return out


def tier_seed():
    try:
        return int(os.environ.get('VERIF_SEED', '0'))
    except ValueError:
        return 0


class Ctx(object):
    """Per-shard state: counters, labels, samples, first unlisted failure."""

    def __init__(self, prop, tier, seed, shard, nshards, tmproot, known):
        self.prop = prop
        self.tier = tier
        self.seed = seed
        self.shard = shard
        self.nshards = nshards
        self.tmproot = tmproot
        self.known = known
        self.evaluations = 0
        self.labels = collections.Counter()
        self.digests = set()
        self.samples = []
        self.known_hits = collections.Counter()
        self.failure = None
        self.entry_counts = collections.Counter()
        self.harness_error = None
        self._ntmp = 0
        self.max_samples = 3
        self._nt_per_entry = collections.Counter()
        # journal mode (second run of a shard whose process died): every case is written down BEFORE it is evaluated, so
        # that the input that kills the interpreter (SIGSEGV / SIGBUS inside numpy, mmap...) can be reported and replayed
        self.journal_path = None

    def journal(self, entry, kind, case):
        if self.journal_path:
            with open(self.journal_path, 'w') as f:
                json.dump({'entry': entry, 'kind': kind, 'case': case}, f, allow_nan=True)
                f.flush()
                os.fsync(f.fileno())

    # -- helpers for property modules ---------------------------------------------------
    @property
    def quick(self):
        return self.tier == 'quick'

    def scale(self, quick, thorough):
        return quick if self.tier == 'quick' else thorough

    def derive_seed(self, name):
        h = hashlib.sha1(('%s|%s|%d|%d' % (self.prop, name, self.seed, self.shard)).encode()).hexdigest()
        return int(h[:12], 16)

    def mkdtemp(self):
        self._ntmp += 1
        d = os.path.join(self.tmproot, 's%02d_%06d' % (self.shard, self._ntmp))
        os.makedirs(d)
        return d

    @contextlib.contextmanager
    def tempdir(self):
        d = self.mkdtemp()
        try:
            yield d
        finally:
            shutil.rmtree(d, ignore_errors=True)

    def mine(self, iterable):
        """The slice of a deterministic enumeration that belongs to this shard."""
        for i, item in enumerate(iterable):
            if i % self.nshards == self.shard:
                yield item

    # -- evaluation ------------------------------------------------------------------------
    def _eval(self, entry, fn, case):
        """Run one case; returns normally unless an unlisted violation occurred."""
        self.evaluations += 1
        self.entry_counts[entry] += 1
        self.journal(entry, 'case', case)
        try:
            res = fn(case, self)
        except Violation as v:
            key = (self.prop, v.signature)
            if key in self.known:
                self.known_hits[v.signature] += 1
                self.labels['excluded_known_finding'] += 1
                return
            raise
        labels, nontrivial = res
        for l in labels:
            self.labels[l] += 1
        if nontrivial:
            d = digest([entry, case])
            if d not in self.digests:
                self.digests.add(d)
                self._nt_per_entry[entry] += 1
                # Hypothesis starts with its simplest example: sample later ones too
                if self._nt_per_entry[entry] in (2, 7, 25) and len(self.samples) < 9:
                    self.samples.append({'entry': entry, 'case': case, 'labels': sorted(labels)})
        else:
            self.labels['trivial'] += 1

    def _record_failure(self, entry, kind, case, v):
        if self.failure is None:
            self.failure = {'entry': entry, 'kind': kind, 'case': case,
                            'message': v.message, 'signature': v.signature}

    def run_cases(self, entry, cases, fn=None):
        """Plain enumeration (finite domains, hand-written corner cases)."""
        fn = fn or self.module.ENTRIES[entry]
        for case in cases:
            if self.failure is not None:
                return
            try:
                self._eval(entry, fn, case)
            except Violation as v:
                self._record_failure(entry, 'case', getattr(v, 'case_override', None) or case, v)
                return

    def run_given(self, entry, strategy, max_examples, fn=None, shrink=True):
        """Hypothesis-driven search over a strategy of JSON-able cases."""
        if self.failure is not None or max_examples <= 0:
            return
        import hypothesis
        from hypothesis import given, settings, HealthCheck, Phase, Verbosity
        fn = fn or self.module.ENTRIES[entry]
        last = {}
        ctx = self
        phases = [Phase.generate, Phase.shrink] if shrink else [Phase.generate]

        @hypothesis.seed(self.derive_seed(entry))
        @settings(max_examples=max_examples, database=None, deadline=None, derandomize=False,
                  report_multiple_bugs=False, phases=phases, verbosity=Verbosity.quiet,
                  suppress_health_check=[HealthCheck.too_slow, HealthCheck.data_too_large,
                                         HealthCheck.large_base_example])
        @given(strategy)
        def test(case):
            try:
                ctx._eval(entry, fn, case)
            except Violation as v:
                last['case'] = getattr(v, 'case_override', None) or case
                last['v'] = v
                raise

        try:
            with quiet():
                test()
        except Violation as v:
            self._record_failure(entry, 'case', last.get('case'), last.get('v', v))
        except hypothesis.errors.Flaky as exc:
            if 'v' in last:
                self._record_failure(entry, 'case', last['case'], last['v'])
                self.labels['flaky_failure'] += 1
            else:
                raise HarnessError('flaky without violation in %s: %s' % (entry, exc))

    def collect(self, name, strategy, count, skip=1):
        """`count` values of a strategy (seeded), skipping Hypothesis' first, simplest examples.  Used where a finite
        sub-domain is enumerated deterministically inside generated scenarios."""
        import hypothesis
        from hypothesis import given, settings, HealthCheck, Phase, Verbosity
        out = []

        @hypothesis.seed(self.derive_seed('collect:' + name))
        @settings(max_examples=count + skip, database=None, deadline=None, derandomize=False,
                  phases=[Phase.generate], verbosity=Verbosity.quiet,
                  suppress_health_check=list(HealthCheck))
        @given(strategy)
        def grab(value):
            out.append(value)

        with quiet():
            grab()
        seen, uniq = set(), []
        for v in out[skip:] + out[:skip]:
            c = canonical(v)
            if c not in seen:
                seen.add(c)
                uniq.append(v)
        return uniq[:count]

    def run_machine(self, entry, max_examples, step_count, cls=None, shrink=True):
        """Hypothesis stateful search; the machine records its own trace for replay."""
        if self.failure is not None or max_examples <= 0:
            return
        import hypothesis
        from hypothesis import settings, HealthCheck, Phase, Verbosity
        from hypothesis.stateful import run_state_machine_as_test
        cls = cls or self.module.MACHINES[entry]
        ctx = self
        last = {}

        class Bound(cls):
            _ctx = ctx
            _entry = entry
            _last = last

        Bound.__name__ = cls.__name__
        Bound.__qualname__ = cls.__qualname__
        sett = settings(max_examples=max_examples, stateful_step_count=step_count, database=None,
                        deadline=None, derandomize=False, report_multiple_bugs=False,
                        verbosity=Verbosity.quiet,
                        phases=[Phase.generate, Phase.shrink] if shrink else [Phase.generate],
                        suppress_health_check=[HealthCheck.too_slow, HealthCheck.data_too_large,
                                               HealthCheck.large_base_example,
                                               HealthCheck.filter_too_much])
        try:
            with quiet():
                run_state_machine_as_test(hypothesis.seed(self.derive_seed(entry))(Bound), settings=sett)
        except Violation as v:
            self._record_failure(entry, 'trace', last.get('trace'), last.get('v', v))
        except hypothesis.errors.Flaky as exc:
            if 'v' in last:
                self._record_failure(entry, 'trace', last['trace'], last['v'])
                self.labels['flaky_failure'] += 1
            else:
                raise HarnessError('flaky without violation in %s: %s' % (entry, exc))


def _machine_base():
    from hypothesis.stateful import RuleBasedStateMachine

    class TracedMachine(RuleBasedStateMachine):
        """
        A rule-based machine whose rules log (name, kwargs) so that a failing history can be
        written to a replay file and re-run without Hypothesis.  Subclasses implement
        setup(init), rules that start with self.log('rule', **kwargs), finish() -> (labels,
        nontrivial) and may implement check() which runs after every step.
        """
        _ctx = None
        _entry = None
        _last = None

        def __init__(self):
            RuleBasedStateMachine.__init__(self)
            self.trace = []
            self._dead = False

        def log(self, name, **kwargs):
            self.trace.append([name, kwargs])
            if self._ctx is not None and self._ctx.journal_path:
                self._ctx.journal(self._entry, 'trace', self.trace)

        def guard(self, fn, *args, **kwargs):
            """Run a step body; on violation remember the trace (minimal one comes last)."""
            try:
                return fn(*args, **kwargs)
            except Violation as v:
                ctx = self._ctx
                if ctx is not None and (ctx.prop, v.signature) in ctx.known:
                    ctx.known_hits[v.signature] += 1
                    ctx.labels['excluded_known_finding'] += 1
                    self._dead = True
                    return None
                if self._last is not None:
                    self._last['trace'] = json.loads(json.dumps(self.trace))
                    self._last['v'] = v
                raise

        def finish(self):
            return set(), False

        def cleanup(self):
            pass

        def teardown(self):
            try:
                ctx = self._ctx
                if ctx is not None and not self._dead:
                    labels, nontrivial = self.finish()
                    ctx.evaluations += 1
                    ctx.entry_counts[self._entry] += 1
                    for l in labels:
                        ctx.labels[l] += 1
                    if nontrivial:
                        d = digest([self._entry, self.trace])
                        if d not in ctx.digests:
                            ctx.digests.add(d)
                            ctx._nt_per_entry[self._entry] += 1
                            if ctx._nt_per_entry[self._entry] in (2, 7, 25) and len(ctx.samples) < 9:
                                ctx.samples.append({'entry': self._entry,
                                                    'trace': json.loads(json.dumps(self.trace)),
                                                    'labels': sorted(labels)})
                    else:
                        ctx.labels['trivial'] += 1
            finally:
                self.cleanup()

        @classmethod
        def replay(cls, trace, ctx):
            class Bound(cls):
                _ctx = None
                _entry = None
                _last = None
            m = Bound()
            m._replay_ctx = ctx
            try:
                for name, kwargs in trace:
                    getattr(m, name)(**kwargs)
                    m.check_invariants_replay()
            finally:
                m.cleanup()

        def check_invariants_replay(self):
            for name in dir(type(self)):
                attr = getattr(type(self), name, None)
                if callable(attr) and getattr(attr, 'hypothesis_stateful_invariant', None) is not None:
                    getattr(self, name)()

    return TracedMachine


_TM = None


def TracedMachine():
    global _TM
    if _TM is None:
        _TM = _machine_base()
    return _TM


# ------------------------------------------------------------------------------------------------
# parent side
# ------------------------------------------------------------------------------------------------

def _tmproot():
    base = '/dev/shm' if os.path.isdir('/dev/shm') and os.access('/dev/shm', os.W_OK) else None
    return tempfile.mkdtemp(prefix='verif-', dir=base)


def _import_repo():
    if REPO not in sys.path:
        sys.path.insert(0, REPO)
    import warnings
    warnings.filterwarnings('ignore')
    with quiet():
        import sedfitter  # noqa
    path = os.path.abspath(sedfitter.__file__)
    if not path.startswith(os.path.abspath(REPO) + os.sep):
        raise HarnessError('sedfitter imported from %s, not from %s' % (path, REPO))


def _load(prop):
    if VERIF_DIR not in sys.path:
        sys.path.insert(0, VERIF_DIR)
    return importlib.import_module('props.' + prop.lower())


def _worker(args):
    prop, tier, seed, shard, nshards, tmproot = args[:6]
    journal = args[6] if len(args) > 6 else None
    try:
        import warnings
        warnings.filterwarnings('ignore')
        mod = _load(prop)
        ctx = Ctx(prop, tier, seed, shard, nshards, tmproot, load_known())
        ctx.module = mod
        ctx.journal_path = journal
        # sedfitter itself calls mkdtemp() (memory-mapped model fluxes) and never cleans up: keep that inside the
        # run's scratch directory, which is removed when the check exits
        scratch = os.path.join(tmproot, 'tmp%02d' % shard)
        os.makedirs(scratch, exist_ok=True)
        tempfile.tempdir = scratch
        os.environ['TMPDIR'] = scratch
        t0 = time.time()
        mod.plan(ctx)
        return {'shard': shard, 'evaluations': ctx.evaluations, 'labels': dict(ctx.labels),
                'digests': ctx.digests, 'samples': ctx.samples, 'known_hits': dict(ctx.known_hits),
                'failure': ctx.failure, 'entries': dict(ctx.entry_counts), 'wall': time.time() - t0}
    except BaseException as exc:  # noqa
        return {'shard': shard, 'harness_error': '%s\n%s' % (repr(exc), traceback.format_exc())}


def _child_main(fn, args, out_path):
    """body of a forked child: run fn(*args), leave the pickled result in out_path"""
    import pickle
    try:
        res = fn(*args)
    except BaseException as exc:  # noqa
        res = {'child_exception': '%s\n%s' % (repr(exc), traceback.format_exc())}
    tmp = out_path + '.tmp'
    with open(tmp, 'wb') as f:
        pickle.dump(res, f)
    os.rename(tmp, out_path)
    sys.stdout.flush()
    os._exit(0)


def run_children(jobs, tmproot, tag):
    """jobs: list of (fn, args).  Each runs in its own forked process (at most cpu_count at a time); a process that DIES
    (killed by a signal, os._exit from C code, ...) does not take the check down with it.
    -> list of ('ok', result) | ('died', description)"""
    import pickle
    mpctx = multiprocessing.get_context('fork')
    limit = max(1, os.cpu_count() or 1)
    out = [None] * len(jobs)
    pending = list(range(len(jobs)))
    running = {}
    while pending or running:
        while pending and len(running) < limit:
            i = pending.pop(0)
            path = os.path.join(tmproot, 'result-%s-%d.pkl' % (tag, i))
            if os.path.exists(path):
                os.remove(path)
            pr = mpctx.Process(target=_child_main, args=(jobs[i][0], jobs[i][1], path))
            pr.start()
            running[i] = (pr, path)
        for i, (pr, path) in list(running.items()):
            pr.join(0.05)
            if pr.is_alive():
                continue
            del running[i]
            if os.path.exists(path):
                with open(path, 'rb') as f:
                    out[i] = ('ok', pickle.load(f))
                os.remove(path)
            else:
                code = pr.exitcode
                what = 'exit code %r' % code
                if code is not None and code < 0:
                    try:
                        what = 'signal %s' % signal.Signals(-code).name
                    except ValueError:
                        what = 'signal %d' % -code
                out[i] = ('died', what)
    return out


def _replay_batch(mod, prop, paths, tier, seed, tmproot, known, progress):
    """runs committed replay files in order (inside a child); `progress` holds the index of the file being run"""
    ctx0 = Ctx(prop, tier, seed, 0, 1, tmproot, known)
    ctx0.module = mod
    res = []
    for i, path in enumerate(paths):
        with open(progress, 'w') as f:
            f.write(str(i))
        data = json.load(open(path))
        try:
            with quiet():
                replay_one(mod, data, ctx0)
            res.append((path, None, None))
        except Violation as v:
            res.append((path, v.message, v.signature))
    return res


def replay_one(mod, data, ctx):
    entry = data['entry']
    if data.get('kind', 'case') == 'trace':
        mod.MACHINES[entry].replay(data['case'], ctx)
        return set(), True
    return mod.ENTRIES[entry](data['case'], ctx)


def _write_replay(prop, failure):
    d = os.path.join(os.environ.get('VERIF_FOUND_DIR') or os.path.join(VERIF_DIR, 'replays'), prop)
    os.makedirs(d, exist_ok=True)
    body = {'property': prop, 'entry': failure['entry'], 'kind': failure['kind'],
            'case': failure['case'], 'message': failure['message'], 'signature': failure['signature']}
    h = hashlib.sha1(canonical([failure['entry'], failure['case']]).encode()).hexdigest()[:12]
    path = os.path.join(d, 'found-%s.json' % h)
    with open(path, 'w') as f:
        json.dump(body, f, indent=1, sort_keys=True, allow_nan=True)
        f.write('\n')
    return path


def _sanitize(obj):
    """Strict-JSON evidence: NaN/inf written as strings."""
    if isinstance(obj, float):
        if obj != obj:
            return 'NaN'
        if obj in (float('inf'), float('-inf')):
            return 'Infinity' if obj > 0 else '-Infinity'
        return obj
    if isinstance(obj, dict):
        return dict((str(k), _sanitize(v)) for k, v in obj.items())
    if isinstance(obj, (list, tuple)):
        return [_sanitize(v) for v in obj]
    return obj


def _write_evidence(mod, prop, tier, seed, merged, wall, violations, extra):
    path = os.path.join(os.environ.get('VERIF_EVIDENCE_DIR') or os.path.join(VERIF_DIR, 'evidence'), prop + '.json')
    os.makedirs(os.path.dirname(path), exist_ok=True)
    cov = {
        'evaluations': merged['evaluations'],
        'distinct_nontrivial': len(merged['digests']),
        'rule': mod.RULE,
        'samples': _sanitize(merged['samples'][:6]),
        'labels': dict(sorted(merged['labels'].items())),
        'evaluations_per_entry': dict(sorted(merged['entries'].items())),
        'shards': merged['nshards'],
        'replays_run_first': merged['replays'],
        'excluded_known_findings': dict(merged['known_hits']),
        'exhaustive': bool(getattr(mod, 'EXHAUSTIVE', False)),
    }
    if getattr(mod, 'EXHAUSTIVE_NOTE', None):
        cov['exhaustive_note'] = mod.EXHAUSTIVE_NOTE
    cov.update(extra or {})
    ev = {'property_id': prop, 'tier': tier, 'seed': seed, 'level': mod.LEVEL, 'coverage': cov,
          'assumptions': list(getattr(mod, 'ASSUMPTIONS', [])), 'wall_s': round(wall, 2),
          'violations': violations}
    try:
        import jsonschema
        schema_path = '/root/.vp/EVIDENCE.schema.json'
        if not os.path.exists(schema_path):
            schema_path = os.path.join(VERIF_DIR, 'vlib', 'EVIDENCE.schema.json')
        schema = json.load(open(schema_path))
        try:
            jsonschema.validate(ev, schema)
        except jsonschema.ValidationError as exc:
            if not violations:
                raise HarnessError('evidence does not validate: %s' % exc.message)
            print('note: evidence of this failing run does not validate (%s)' % exc.message)
    except ImportError:
        pass
    with open(path, 'w') as f:
        json.dump(ev, f, indent=1, sort_keys=True, allow_nan=False)
        f.write('\n')
    return path


def main(argv=None):
    import argparse
    p = argparse.ArgumentParser()
    p.add_argument('prop')
    p.add_argument('--tier', default=os.environ.get('VERIF_TIER', 'quick'), choices=['quick', 'thorough'])
    p.add_argument('--replay', default=None)
    p.add_argument('--shards', type=int, default=NSHARDS)
    a = p.parse_args(argv)
    prop = a.prop.upper()
    seed = tier_seed()
    t0 = time.time()
    tmproot = None
    try:
        ensure_deps()
        _import_repo()
        mod = _load(prop)
        known = load_known()
        tmproot = _tmproot()

        if a.replay:
            ctx = Ctx(prop, a.tier, seed, 0, 1, tmproot, {})
            ctx.module = mod
            progress = os.path.join(tmproot, 'replay-progress')
            (status, res), = run_children([(_replay_batch, (mod, prop, [a.replay], a.tier, seed, tmproot, {}, progress))],
                                          tmproot, 'replay')
            if status == 'died':
                print('replay failed: the interpreter died (%s) while evaluating this input' % res)
                print('VIOLATION property=%s replay=%s' % (prop, os.path.abspath(a.replay)))
                return 1
            if 'child_exception' in res:
                raise HarnessError(res['child_exception'])
            if res[0][1] is not None:
                print('replay failed: %s' % res[0][1])
                print('VIOLATION property=%s replay=%s' % (prop, os.path.abspath(a.replay)))
                return 1
            print('replay passed: %s' % a.replay)
            return 0

        # 1. committed regression inputs first
        ctx0 = Ctx(prop, a.tier, seed, 0, 1, tmproot, known)
        ctx0.module = mod
        nrep = 0
        known_lines = {}
        first_failure = None
        replay_files = [] if os.environ.get('VERIF_NO_REPLAYS') else sorted(glob.glob(os.path.join(VERIF_DIR, 'replays', prop, '*.json')))
        todo = list(replay_files)
        progress = os.path.join(tmproot, 'replay-progress')
        while todo:
            (status, res), = run_children([(_replay_batch, (mod, prop, todo, a.tier, seed, tmproot, known, progress))],
                                          tmproot, 'replays')
            if status == 'ok' and 'child_exception' in res:
                raise HarnessError(res['child_exception'])
            if status == 'died':
                # the file being replayed killed the interpreter: report it and go on with the rest
                i = int(open(progress).read() or 0) if os.path.exists(progress) else 0
                done = [(pth, None, None) for pth in todo[:i]]    # (their outcome is re-established below)
                bad = todo[i]
                print('regression input fails: %s: the interpreter died (%s) while evaluating it' % (bad, res))
                nrep += 1
                if first_failure is None:
                    first_failure = bad
                todo = todo[:i] + todo[i + 1:]
                continue
            for path, message, signature in res:
                nrep += 1
                if message is None:
                    continue
                if (prop, signature) in known:
                    known_lines[signature] = known[(prop, signature)]
                    continue
                print('regression input fails: %s: %s' % (path, message))
                if first_failure is None:
                    first_failure = path
            todo = []

        # 2. generated search, sharded
        nshards = max(1, a.shards)
        jobs = [(prop, a.tier, seed, s, nshards, tmproot) for s in range(nshards)]
        outcomes = run_children([(_worker, (job,)) for job in jobs], tmproot, 'shard')
        results = []
        for job, (status, res) in zip(jobs, outcomes):
            if status == 'ok':
                if 'child_exception' in res:
                    res = {'shard': job[3], 'harness_error': res['child_exception']}
                results.append(res)
                continue
            # the process of this shard died: run it again, writing every case down before it is evaluated
            jpath = os.path.join(tmproot, 'journal-%d.json' % job[3])
            (status2, res2), = run_children([(_worker, (job + (jpath,),))], tmproot, 'shard-again')
            if status2 == 'ok':
                if 'harness_error' in res2 or 'child_exception' in res2:
                    results.append({'shard': job[3], 'harness_error': res2.get('harness_error') or res2.get('child_exception')})
                else:
                    # not reproducible: believe the second run, but say so
                    print('note: the process of shard %d died (%s) once; a second run of the same shard completed' % (job[3], res))
                    res2['labels']['shard_process_died_once'] = res2['labels'].get('shard_process_died_once', 0) + 1
                    results.append(res2)
                continue
            if not os.path.exists(jpath):
                results.append({'shard': job[3], 'harness_error': 'the process of shard %d died (%s) before any case was evaluated' % (job[3], res2)})
                continue
            j = json.load(open(jpath))
            results.append({'shard': job[3], 'evaluations': 1, 'labels': {}, 'digests': set(), 'samples': [], 'known_hits': {},
                            'entries': {j['entry']: 1}, 'wall': 0.,
                            'failure': {'entry': j['entry'], 'kind': j['kind'], 'case': j['case'],
                                        'message': 'the interpreter died (%s) while evaluating this input' % res2,
                                        'signature': 'crash:%s' % res2}})

        errs = [r for r in results if 'harness_error' in r]
        if errs:
            print('HARNESS ERROR in shard %d:\n%s' % (errs[0]['shard'], errs[0]['harness_error']))
            return 2

        merged = {'evaluations': nrep, 'digests': set(), 'labels': collections.Counter(),
                  'samples': [], 'known_hits': collections.Counter(), 'entries': collections.Counter(),
                  'nshards': nshards, 'replays': nrep}
        failures = []
        for r in results:
            merged['evaluations'] += r['evaluations']
            merged['digests'] |= r['digests']
            merged['labels'].update(r['labels'])
            merged['known_hits'].update(r['known_hits'])
            merged['entries'].update(r['entries'])
            if r['failure'] is not None:
                failures.append(r['failure'])
        # interleave samples of the shards so that different entries show up
        allsamples = [s for r in results for s in r['samples']]
        allsamples.sort(key=lambda s: (-len(s.get('labels', [])), len(canonical(s))))
        seen_entries = set()
        for s in allsamples:
            if s['entry'] not in seen_entries:
                seen_entries.add(s['entry'])
                merged['samples'].append(s)
        for s in allsamples:
            if len(merged['samples']) < 5 and s not in merged['samples']:
                merged['samples'].append(s)

        for sig in merged['known_hits']:
            known_lines[sig] = known[(prop, sig)]
        for sig, what in sorted(known_lines.items()):
            print('KNOWN-FINDING: property=%s %s' % (prop, what))

        replay_path = first_failure
        if failures:
            failures.sort(key=lambda f: len(canonical(f['case'])))
            replay_path = _write_replay(prop, failures[0])
            print('violation: [%s] %s' % (failures[0]['entry'], failures[0]['message']))
        nviol = len(failures) + (1 if first_failure else 0)
        wall = time.time() - t0
        extra = {}
        if hasattr(mod, 'evidence_extra'):
            extra = mod.evidence_extra(merged)
        _write_evidence(mod, prop, a.tier, seed, merged, wall, nviol, extra)
        print('%s tier=%s seed=%d evaluations=%d distinct_nontrivial=%d wall=%.1fs' % (
            prop, a.tier, seed, merged['evaluations'], len(merged['digests']), wall))
        if nviol:
            print('VIOLATION property=%s replay=%s' % (prop, replay_path))
            return 1
        if len(merged['digests']) < 2:
            print('HARNESS ERROR: fewer than 2 non-trivial cases were generated')
            return 2
        return 0
    except HarnessError as exc:
        print('HARNESS ERROR: %s' % exc)
        return 2
    except Exception:
        print('HARNESS ERROR:\n%s' % traceback.format_exc())
        return 2
    finally:
        if tmproot:
            shutil.rmtree(tmproot, ignore_errors=True)
