"""
Reference pieces written from the property statements (C06, C13, C15, C16): exact integration of a piecewise-linear
response over SED bins, aperture interpolation, unit algebra.  No sedfitter code, no numpy vectorisation.
"""
import math
from fractions import Fraction as Fr

C_UM_HZ = 299792458.0e6  # micron * Hz


def pl_integral(xs, ys, a, b):
    """
    Exact integral over [a, b] of the piecewise-linear function through (xs, ys) (xs strictly increasing Fractions),
    restricted to [xs[0], xs[-1]] (zero outside).  a <= b.
    """
    a = max(a, xs[0])
    b = min(b, xs[-1])
    if b <= a:
        return Fr(0)
    total = Fr(0)
    for i in range(len(xs) - 1):
        lo = max(a, xs[i])
        hi = min(b, xs[i + 1])
        if hi <= lo:
            continue
        slope = (ys[i + 1] - ys[i]) / (xs[i + 1] - xs[i])
        ylo = ys[i] + slope * (lo - xs[i])
        yhi = ys[i] + slope * (hi - xs[i])
        total += (ylo + yhi) / 2 * (hi - lo)
    return total


def rebin_reference(filter_nu, filter_resp, sed_nu):
    """
    R_i = integral of the piecewise-linear response over the bin of sed_nu[i]: bins are bounded by the midpoints between
    adjacent SED frequencies (the first and last bins end at the first / last SED frequency), restricted to the overlap
    of filter and SED ranges.  Either array may be given in increasing or decreasing order.  Returns (list of Fractions
    in the order of sed_nu, total integral of the filter).
    """
    pairs = sorted(zip([Fr(x) for x in filter_nu], [Fr(y) for y in filter_resp]))
    xs = [p[0] for p in pairs]
    ys = [p[1] for p in pairs]
    nu = [Fr(x) for x in sed_nu]
    n = len(nu)
    out = []
    for i in range(n):
        e1 = nu[0] if i == 0 else (nu[i - 1] + nu[i]) / 2
        e2 = nu[-1] if i == n - 1 else (nu[i] + nu[i + 1]) / 2
        a, b = (e1, e2) if e1 <= e2 else (e2, e1)
        out.append(pl_integral(xs, ys, a, b))
    return out, pl_integral(xs, ys, xs[0], xs[-1])


def overlap_integral(filter_nu, filter_resp, sed_nu):
    pairs = sorted(zip([Fr(x) for x in filter_nu], [Fr(y) for y in filter_resp]))
    xs = [p[0] for p in pairs]
    ys = [p[1] for p in pairs]
    lo = Fr(min(sed_nu))
    hi = Fr(max(sed_nu))
    return pl_integral(xs, ys, lo, hi)


def interp_aperture(ap_table, values, ap):
    """linear interpolation in aperture; largest value beyond the table; None below the table"""
    if len(ap_table) == 1:
        return values[0]
    if ap >= ap_table[-1]:
        return values[-1]
    if ap < ap_table[0]:
        return None
    for i in range(len(ap_table) - 1):
        if ap_table[i] <= ap <= ap_table[i + 1]:
            if ap == ap_table[i]:
                return values[i]
            if ap == ap_table[i + 1]:
                return values[i + 1]
            t = (ap - ap_table[i]) / (ap_table[i + 1] - ap_table[i])
            return values[i] + t * (values[i + 1] - values[i])
    return values[-1]


# ---- flux unit algebra in plain floats (cgs) ---------------------------------------------------------------------------

JY = 1e-23  # erg / s / cm^2 / Hz
FAMILY = {'mJy': 'fnu', 'Jy': 'fnu', 'erg/cm2/s': 'f', 'W/m2': 'f', 'erg/s': 'l', 'W': 'l'}
TO_CGS = {'mJy': 1e-3 * JY, 'Jy': JY, 'erg/cm2/s': 1., 'W/m2': 1e3, 'erg/s': 1., 'W': 1e7}


def convert_flux_ref(value, nu_hz, src, dst, distance_cm):
    """F(erg/cm2/s) = nu*F_nu ; L = F*d^2 (as the property states, no 4 pi)"""
    v = value * TO_CGS[src]
    fam = FAMILY[src]
    if fam == 'fnu':
        f = v * nu_hz
    elif fam == 'l':
        f = v / distance_cm ** 2
    else:
        f = v
    fam2 = FAMILY[dst]
    if fam2 == 'fnu':
        out = f / nu_hz
    elif fam2 == 'l':
        out = f * distance_cm ** 2
    else:
        out = f
    return out / TO_CGS[dst]
