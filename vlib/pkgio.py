"""
Independent writers / readers of model packages (astropy.io.fits only -- no sedfitter code).

Written from docs/creating_model_packages.rst (per-file format) and from the HDU layout that
defines the cube format (primary: validity + DISTANCE; MODEL_NAMES; SPECTRAL_INFO; APERTURES;
VALUES; UNCERTAINTIES).  Everything takes plain Python lists / numpy arrays and unit *strings*.
"""
import os

import numpy as np
from astropy.io import fits

C_UM_HZ = 299792458.0e6  # c in micron * Hz


def finish(path, gz):
    """`path` (a plain FITS file just written) is gzip-compressed to path + '.gz' when gz is set (the documented layouts
    allow .fits.gz for SED files, convolved fluxes and the parameter table); a stale twin of the other kind is removed."""
    import gzip
    if gz:
        with open(path, 'rb') as f:
            raw = f.read()
        with gzip.GzipFile(path + '.gz', 'wb', mtime=0) as g:
            g.write(raw)
        os.remove(path)
    elif os.path.exists(path + '.gz'):
        os.remove(path + '.gz')


def wav_to_nu(wav_um):
    return [C_UM_HZ / w for w in wav_um]


CONF_FLAGS = [('yes', 'no'), ('Yes', 'No'), ('YES', 'NO'), ('y', 'n'), ('Y', 'N')]
N_CONF_STYLES = 2 * len(CONF_FLAGS)


def write_conf(model_dir, aperture_dependent, logd_step=0.02, version=None, name='generated',
               length_subdir=0, style=0):
    """models.conf as the documentation shows it (style 0), or in any other spelling the package reader takes as the same
    declaration: yes/no in any letter case or as y/n, no blanks around '=', comment and blank lines, another key order."""
    yes, no = CONF_FLAGS[int(style) % len(CONF_FLAGS)]
    lines = [('name', '%s' % name), ('length_subdir', '%d' % length_subdir),
             ('aperture_dependent', yes if aperture_dependent else no), ('logd_step', '%r' % float(logd_step))]
    if version is not None:
        lines.append(('version', '%d' % version))
    with open(os.path.join(model_dir, 'models.conf'), 'w') as f:
        if (int(style) // len(CONF_FLAGS)) % 2 == 0:
            for k, v in lines:
                f.write('%s = %s\n' % (k, v))
        else:
            f.write('# model package\n\n')
            for k, v in reversed(lines):
                f.write('%s=%s\n' % (k, v))
                f.write('\n# aperture_dependent = %s\n' % (no if aperture_dependent else yes))


def write_parameters(model_dir, names, params, order=None, width=30, filename='parameters.fits', fmt='D', gz=False, name_pos=0):
    """params: {column: [value per model]} in the order of `names`; `order` permutes the rows; the MODEL_NAME column is the
    name_pos-th column of the table (consumers address it by name)."""
    idx = list(range(len(names))) if order is None else list(order)
    cols = []
    for key in params:
        cols.append(fits.Column(name=key, format=fmt, array=np.array([params[key][i] for i in idx],
                                                                      dtype=float if fmt == 'D' else np.float32)))
    cols.insert(min(max(int(name_pos), 0), len(cols)),
                fits.Column(name='MODEL_NAME', format='%dA' % width, array=np.array([names[i] for i in idx], dtype='S%d' % width)))
    hdu0 = fits.PrimaryHDU()
    hdu0.header['NMODELS'] = len(names)
    hdu1 = fits.BinTableHDU.from_columns(cols)
    fits.HDUList([hdu0, hdu1]).writeto(os.path.join(model_dir, filename), overwrite=True)
    finish(os.path.join(model_dir, filename), gz)


def write_convolved(model_dir, filt, names, wav_um, apertures_au, flux, err, dtype='D', unit='mJy',
                    with_aperture_hdu=True, width=30, gz=False):
    """flux/err: [model][aperture] in `unit`.  apertures_au None -> single column, no APERTURES HDU."""
    d = os.path.join(model_dir, 'convolved')
    if not os.path.isdir(d):
        os.mkdir(d)
    flux = np.array(flux, dtype=float)
    err = np.array(err, dtype=float)
    nap = 1 if apertures_au is None else len(apertures_au)
    flux = flux.reshape(len(names), nap)
    err = err.reshape(len(names), nap)
    hdu0 = fits.PrimaryHDU()
    hdu0.header['FILTWAV'] = float(wav_um)
    hdu0.header['NMODELS'] = len(names)
    hdu0.header['NAP'] = nap
    fmt = '%d%s' % (nap, dtype)
    npd = np.float64 if dtype == 'D' else np.float32
    if nap == 1:
        fa, ea = flux[:, 0].astype(npd), err[:, 0].astype(npd)
    else:
        fa, ea = flux.astype(npd), err.astype(npd)
    cols = [fits.Column(name='MODEL_NAME', format='%dA' % width, array=np.array(names, dtype='S%d' % width)),
            fits.Column(name='TOTAL_FLUX', format=fmt, unit=unit, array=fa),
            fits.Column(name='TOTAL_FLUX_ERR', format=fmt, unit=unit, array=ea)]
    hdu1 = fits.BinTableHDU.from_columns(cols, name='CONVOLVED FLUXES')
    hdus = [hdu0, hdu1]
    if apertures_au is not None and with_aperture_hdu:
        hdu2 = fits.BinTableHDU.from_columns(
            [fits.Column(name='APERTURE', format='D', unit='AU', array=np.array(apertures_au, dtype=float))],
            name='APERTURES')
        hdus.append(hdu2)
    fits.HDUList(hdus).writeto(os.path.join(d, filt + '.fits'), overwrite=True)
    finish(os.path.join(d, filt + '.fits'), gz)


def read_convolved(path):
    """Independent reader: names (stripped str), flux[model][ap], err, apertures (value list, unit str), FILTWAV."""
    with fits.open(path, memmap=False) as h:
        tab = h['CONVOLVED FLUXES']
        data = tab.data
        names = [str(x).strip() for x in data['MODEL_NAME']]
        flux = np.array(data['TOTAL_FLUX'], dtype=float)
        err = np.array(data['TOTAL_FLUX_ERR'], dtype=float)
        colnames = [c.name for c in tab.columns]
        funit = tab.columns[colnames.index('TOTAL_FLUX')].unit
        eunit = tab.columns[colnames.index('TOTAL_FLUX_ERR')].unit
        if flux.ndim == 1:
            flux = flux.reshape(-1, 1)
        if err.ndim == 1:
            err = err.reshape(-1, 1)
        aps, apunit = None, None
        if 'APERTURES' in h:
            aps = [float(x) for x in h['APERTURES'].data['APERTURE']]
            apunit = h['APERTURES'].columns[0].unit
        filtwav = h[0].header.get('FILTWAV')
        return {'names': names, 'flux': flux, 'err': err, 'apertures': aps, 'aperture_unit': apunit,
                'filtwav': filtwav, 'flux_unit': funit, 'err_unit': eunit,
                'nmodels': h[0].header.get('NMODELS'), 'nap': h[0].header.get('NAP')}


def write_sed_file(path, name, wav, nu, apertures, flux, err, wav_unit='um', nu_unit='Hz', ap_unit='AU',
                   flux_unit='mJy', err_unit=None, distance_cm=None, dtype='D', hdu3_layout='standard', stellar_unit=None):
    """
    A path ending in .gz is written gzip-compressed.
    SED file per docs: HDU1 WAVELENGTH/FREQUENCY, HDU2 APERTURE, HDU3 TOTAL_FLUX / TOTAL_FLUX_ERR with one row per
    aperture, each cell a vector over the spectral axis.  The spectral axis is stored in the order given.
    """
    nwav = len(wav)
    aps = [1e-30] if apertures is None else list(apertures)
    flux = np.array(flux, dtype=float).reshape(len(aps), nwav)
    err = np.array(err, dtype=float).reshape(len(aps), nwav)
    hdu0 = fits.PrimaryHDU()
    hdu0.header['VERSION'] = 1
    hdu0.header['MODEL'] = name
    hdu0.header['IMAGE'] = False
    hdu0.header['WAVLGHTS'] = True
    hdu0.header['APERTURS'] = True
    hdu0.header['SEDS'] = True
    if distance_cm is not None:
        hdu0.header['DISTANCE'] = float(distance_cm)
    hdu0.header['NWAV'] = nwav
    hdu0.header['NAP'] = len(aps)
    hdu1 = fits.BinTableHDU.from_columns([
        fits.Column(name='WAVELENGTH', format=dtype, unit=wav_unit, array=np.array(wav, dtype=float)),
        fits.Column(name='FREQUENCY', format=dtype, unit=nu_unit, array=np.array(nu, dtype=float))], name='WAVELENGTHS')
    hdu2 = fits.BinTableHDU.from_columns([
        fits.Column(name='APERTURE', format=dtype, unit=ap_unit if apertures is not None else 'cm',
                    array=np.array(aps, dtype=float))], name='APERTURES')
    fmt = '%d%s' % (nwav, dtype)
    tot = fits.Column(name='TOTAL_FLUX', format=fmt, unit=flux_unit, array=flux)
    tot_err = fits.Column(name='TOTAL_FLUX_ERR', format=fmt, unit=err_unit or flux_unit, array=err)
    # the documented optional columns (a stellar component), and "the order of the columns is not important"
    star = fits.Column(name='STELLAR_FLUX', format=fmt, unit=stellar_unit or flux_unit, array=np.array(flux, dtype=float) * 0.37)
    star_err = fits.Column(name='STELLAR_FLUX_ERR', format=fmt, unit=stellar_unit or flux_unit, array=np.array(err, dtype=float) * 0.61)
    cols3 = {'standard': [tot, tot_err], 'stellar_last': [tot, tot_err, star, star_err],
             'stellar_first': [star, star_err, tot, tot_err], 'err_first': [tot_err, tot],
             'interleaved': [star, tot, star_err, tot_err]}[hdu3_layout]
    hdu3 = fits.BinTableHDU.from_columns(cols3, name='SEDS')
    gz = path.endswith('.gz')
    plain = path[:-3] if gz else path
    fits.HDUList([hdu0, hdu1, hdu2, hdu3]).writeto(plain, overwrite=True)
    finish(plain, gz)


def read_sed_file(path):
    with fits.open(path, memmap=False) as h:
        out = {'name': h[0].header['MODEL'], 'distance_cm': h[0].header.get('DISTANCE'),
               'wav': np.array(h[1].data['WAVELENGTH'], dtype=float), 'nu': np.array(h[1].data['FREQUENCY'], dtype=float),
               'wav_unit': h[1].columns[0].unit, 'nu_unit': h[1].columns[1].unit,
               'apertures': np.array(h[2].data['APERTURE'], dtype=float), 'ap_unit': h[2].columns[0].unit,
               'flux': np.array(h[3].data['TOTAL_FLUX'], dtype=float), 'err': np.array(h[3].data['TOTAL_FLUX_ERR'], dtype=float),
               'flux_unit': h[3].columns[0].unit, 'err_unit': h[3].columns[1].unit}
        return out


def write_cube(path, names, wav, apertures, val, unc, wav_unit='um', ap_unit='AU', val_unit='mJy', unc_unit=None,
               distance_cm=3.0856775814913674e21, dtype=np.float64, valid=None):
    """val/unc: [model][aperture][wavelength]; spectral axis stored in the order given."""
    names = list(names)
    nap = 1 if apertures is None else len(apertures)
    val = np.array(val, dtype=dtype).reshape(len(names), nap, len(wav))
    hdu0 = fits.PrimaryHDU(data=np.ones(len(names), dtype=np.int64) if valid is None else np.array(valid, dtype=np.int64))
    hdu0.header['DISTANCE'] = float(distance_cm)
    hdu0.header['NWAV'] = len(wav)
    if apertures is not None:
        hdu0.header['NAP'] = nap
    width = max(1, max(len(n) for n in names))
    hdu1 = fits.BinTableHDU.from_columns([
        fits.Column(name='MODEL_NAME', format='%dA' % width, array=np.array(names, dtype='S%d' % width))],
        name='MODEL_NAMES')
    nu = [C_UM_HZ / w for w in wav] if wav_unit in ('um', 'micron') else None
    cols = [fits.Column(name='WAVELENGTH', format='D', unit=wav_unit, array=np.array(wav, dtype=float))]
    if nu is not None:
        cols.append(fits.Column(name='FREQUENCY', format='D', unit='Hz', array=np.array(nu, dtype=float)))
    hdu2 = fits.BinTableHDU.from_columns(cols, name='SPECTRAL_INFO')
    hdus = [hdu0, hdu1, hdu2]
    if apertures is not None:
        hdus.append(fits.BinTableHDU.from_columns([
            fits.Column(name='APERTURE', format='D', unit=ap_unit, array=np.array(apertures, dtype=float))],
            name='APERTURES'))
    hv = fits.ImageHDU(val, name='VALUES')
    hv.header['BUNIT'] = val_unit
    hdus.append(hv)
    if unc is not None:
        unc = np.array(unc, dtype=dtype).reshape(len(names), nap, len(wav))
        hu = fits.ImageHDU(unc, name='UNCERTAINTIES')
        hu.header['BUNIT'] = unc_unit or val_unit
        hdus.append(hu)
    fits.HDUList(hdus).writeto(path, overwrite=True)


def read_cube(path):
    with fits.open(path, memmap=False) as h:
        out = {'names': [str(x).strip() for x in h['MODEL_NAMES'].data['MODEL_NAME']],
               'distance_cm': h[0].header['DISTANCE'],
               'wav': np.array(h['SPECTRAL_INFO'].data['WAVELENGTH'], dtype=float),
               'wav_unit': h['SPECTRAL_INFO'].columns[0].unit,
               'val': np.array(h['VALUES'].data, dtype=float), 'val_unit': h['VALUES'].header['BUNIT'],
               'apertures': None, 'unc': None}
        names = [x.name for x in h]
        if 'APERTURES' in names:
            out['apertures'] = np.array(h['APERTURES'].data['APERTURE'], dtype=float)
            out['ap_unit'] = h['APERTURES'].columns[0].unit
        if 'UNCERTAINTIES' in names:
            out['unc'] = np.array(h['UNCERTAINTIES'].data, dtype=float)
            out['unc_unit'] = h['UNCERTAINTIES'].header['BUNIT']
        return out


def write_filter_file(path, central_um, wav_um, response):
    with open(path, 'w') as f:
        f.write('# wav = %r\n' % float(central_um))
        for w, r in zip(wav_um, response):
            f.write('%r %r\n' % (float(w), float(r)))


def write_data_file(path, lines):
    with open(path, 'w') as f:
        for line in lines:
            f.write(line.rstrip('\n') + '\n')


def source_line(name, x, y, flags, flux, err):
    """A data.rst line with full-precision numbers."""
    toks = [name, repr(float(x)), repr(float(y))] + [str(int(f)) for f in flags]
    for a, b in zip(flux, err):
        toks += [repr(float(a)), repr(float(b))]
    return ' '.join(toks)
