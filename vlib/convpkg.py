"""
Abstract model packages (SED level) for C06e / C07 / C08 / C16: one description, emitted as a per-file package or a cube
package by the independent writers of pkgio; reference convolution with the exact rebinning of oracle_misc.
"""
import os
import math
from fractions import Fraction as Fr

from hypothesis import strategies as st

from . import gen, pkgio
from . import oracle_misc as om

NAME_STYLES = [lambda i: 'model_%04d' % i, lambda i: 'm%d' % (i + 1), lambda i: '3%04d_%d' % (9 - i, i),
               lambda i: ['Zeta', 'alpha', 'B2', 'a10', 'a9', 'Mm', 'mm', 'x_y'][i],
               # unpadded numbering and names that are prefixes of each other: <name>_sed.fits files then sort differently
               # from the names themselves ('m10_sed.fits' < 'm1_sed.fits' but 'm1' < 'm10')
               lambda i: ['m1', 'm10', 'm2', 'm', 'm1A', 'm100', 'm11', 'm.5'][i],
               # ordinary words: names that end in letters which also occur in '_sed.fits', or in '_' / '.'
               lambda i: ['dust', 'jet', 'cloud', 'halo_', 'disk.s', 'fits', 'sed', 'stellar_sed'][i]]


@st.composite
def abstract_packages(draw, max_models=8, max_ap=5, min_wav=3, max_wav=12, apdep=None, distinct=True):
    n = draw(st.integers(1, max_models))
    style = draw(st.sampled_from(NAME_STYLES))
    names = [style(i) for i in range(n)]
    order = list(draw(st.permutations(list(range(n)))))
    names = [names[i] for i in order]                      # cube / abstract order (arbitrary)
    nw = draw(st.integers(min_wav, max_wav))
    wav = draw(gen.increasing(nw, 0.1, 500., 1.03))
    if apdep is None:
        apdep = draw(st.booleans())
    nap = draw(st.integers(1, max_ap)) if apdep else 1
    aps = draw(gen.increasing(nap, 10., 1e5, 1.2)) if apdep else None
    flux, err = [], []
    for m in range(n):
        fm, em = [], []
        base = [draw(gen.logfloat(1e-2, 1e3)) for _ in range(nw)]
        for a in range(nap):
            # distinct pattern per (model, aperture): growth with aperture + model/aperture specific wiggle
            row = [base[w] * (1. + 0.37 * a) * (1. + 0.011 * ((7 * m + 3 * a + w) % 13)) for w in range(nw)]
            fm.append(row)
            em.append([v * (0.01 + 0.003 * ((m + 2 * a + 5 * w) % 7)) for w, v in enumerate(row)])
        flux.append(fm)
        err.append(em)
    perm = list(draw(st.permutations(list(range(n)))))     # row order of parameters.fits (per-file format)
    return {'names': names, 'wav': wav, 'apertures': aps, 'flux': flux, 'err': err, 'perm': perm,
            'storage': draw(st.sampled_from(['asc', 'desc'])),
            'apdep': bool(apdep),
            'logd_step': draw(st.sampled_from([0.02, 0.1, 0.3])),
            'params': {'par1': [100. + 7. * i for i in range(n)], 'LOGL': [-3. + 0.5 * i for i in range(n)]},
            'cube_dtype': draw(st.sampled_from(['f8', 'f8', 'f4'])),
            # unit the SED files / the cube are STORED in (the abstract fluxes are always mJy)
            'sed_unit': draw(st.sampled_from(['mJy', 'mJy', 'Jy', 'erg cm-2 s-1', 'ergs/cm^2/s'])),
            'cube_unit': draw(st.sampled_from(['mJy', 'mJy', 'Jy', 'cgs'])),
            'sed_err_unit': draw(st.sampled_from(['same', 'same', 'mJy', 'Jy'])),
            'cube_unc_unit': draw(st.sampled_from(['same', 'same', 'mJy', 'Jy'])),
            # the aperture axis may be STORED in any order (files and cube alike); the abstract description stays ascending
            'ap_storage': draw(st.sampled_from(['asc', 'asc', 'desc', 'shuffled'])),
            'ap_shuffle': list(draw(st.permutations(list(range(nap))))),
            # documented per-file layouts: SED files plain or gzip-compressed, directly in seds/ or in sub-directories named
            # after the first letters of the model name; the parameter table may be parameters.fits.gz
            'sed_layout': draw(st.sampled_from(['flat', 'flat', 'flat', 'gz', 'sub', 'sub_gz', 'mixed'])),
            'par_gz': draw(st.integers(0, 4)) == 0,
            'conf_style': draw(st.sampled_from([0, 0, 0] + list(range(pkgio.N_CONF_STYLES)))),
            # HDU 3 of the SED files (per-file packages): optional stellar columns, any column order, own unit
            'hdu3_layout': draw(st.sampled_from(['standard', 'standard', 'standard', 'stellar_last', 'stellar_first', 'err_first', 'interleaved'])),
            'stellar_unit': draw(st.sampled_from([None, None, 'Jy', 'mJy']))}


@st.composite
def with_model_grids(draw, pkg):
    """some SEDs of a per-file package live on another wavelength grid (other length, or the same length and end points
    with another interior sampling): the convolver must re-bin the filters for them"""
    n = len(pkg['names'])
    # some SEDs of a per-file package live on another wavelength grid (other length or same length)
    nap = len(pkg['flux'][0])
    by_model = [None] * n
    for m in range(n):
        if draw(st.booleans()):
            nw2 = draw(st.sampled_from([len(pkg['wav']), len(pkg['wav']) + 2, 3, 7]))
            w2 = draw(gen.increasing(nw2, pkg['wav'][0] * 0.8, pkg['wav'][-1] * 1.3, 1.02))
            if draw(st.booleans()):
                # same number of points and same end points, only the interior sampling differs
                w = pkg['wav']
                nw2 = len(w)
                w2 = [w[0]] + [w[i] + draw(st.floats(-0.45, 0.45, allow_nan=False)) * min(w[i] - w[i - 1], w[i + 1] - w[i])
                               for i in range(1, nw2 - 1)] + [w[-1]]
            by_model[m] = w2
            base = [draw(gen.logfloat(1e-2, 1e3)) for _ in range(nw2)]
            pkg['flux'][m] = [[base[w] * (1. + 0.37 * ai) * (1. + 0.011 * ((7 * m + 3 * ai + w) % 13)) for w in range(nw2)]
                              for ai in range(nap)]
            pkg['err'][m] = [[v * (0.01 + 0.003 * ((m + 2 * ai + 5 * w) % 7)) for w, v in enumerate(row)]
                             for ai, row in enumerate(pkg['flux'][m])]
    if any(b is not None for b in by_model):
        pkg['wav_by_model'] = by_model
    return pkg


# units a cube may be stored in: factor from mJy, unit string of the file ('cgs' = erg/s/cm^2/Hz, as radiative-transfer codes
# write it: 1 mJy = 1e-26 of it)
CUBE_UNITS = {'mJy': (1., 'mJy'), 'Jy': (1e-3, 'Jy'), 'cgs': (1e-26, 'erg / (cm2 s Hz)')}


@st.composite
def filters_for(draw, wav, nmin=1, nmax=3, inside=False):
    """filter curves (in frequency) around the package's wavelength range"""
    # (filter names are free text: dots occur in real ones, e.g. a band next to its wide variant, a wavelength as name)
    names = draw(st.permutations(['alice', 'bob', 'eve', 'F4', '2J', 'B3', 'B3.wide', 'M4.5']))
    out = []
    nu_lo, nu_hi = om.C_UM_HZ / wav[-1], om.C_UM_HZ / wav[0]
    for i in range(draw(st.integers(nmin, nmax))):
        n = draw(st.integers(2, 12))
        if inside and nu_hi / nu_lo < 2.5:
            a, b = nu_lo * 1.001, nu_hi / 1.001
        elif inside:
            a = nu_lo * draw(gen.logfloat(1.05, 1.5))
            b = min(nu_hi / 1.05, a * draw(gen.logfloat(1.3, 30.)))
        else:
            a = nu_lo * draw(gen.logfloat(0.5, 2.))
            b = a * draw(gen.logfloat(1.3, 30.))
        if b <= a * 1.01:
            b = a * 1.3
        nus = draw(gen.increasing(n, a, b, 1.003))
        nus[0], nus[-1] = a, max(b, nus[-2] * 1.003) if n > 1 else b
        resp = [draw(st.one_of(st.just(0.), st.floats(1e-3, 1., allow_nan=False))) for _ in range(n)]
        if all(r == 0. for r in resp):
            resp[n // 2] = 0.7
        if draw(st.booleans()):
            resp[0] = resp[-1] = 0.
            if all(r == 0. for r in resp):
                resp = [0.] + [0.5] * (n - 2) + [0.] if n > 2 else [0.3, 0.4]
        desc = draw(st.booleans())
        if desc:
            nus, resp = nus[::-1], resp[::-1]
        out.append({'name': names[i], 'central': om.C_UM_HZ / math.sqrt(a * b), 'nu': nus, 'response': resp,
                    'normalize': draw(st.booleans())})
    return out


def filter_object(f):
    import numpy as np
    from astropy import units as u
    from sedfitter.filter import Filter
    o = Filter()
    o.name = f['name']
    o.central_wavelength = f['central'] * u.micron
    o.nu = np.array(f['nu']) * u.Hz
    o.response = np.array(f['response'], dtype=float)
    if f.get('normalize'):
        o.normalize()
    return o


def emit(pkg, model_dir, fmt, file_stems=None):
    """Write the abstract package in the per-file ('v1') or the cube ('v2') format."""
    names = pkg['names']
    n = len(names)
    wav = list(pkg['wav'])
    idx = list(range(len(wav)))
    if pkg['storage'] == 'desc':
        idx = idx[::-1]
    swav = [wav[i] for i in idx]
    nap = 1 if pkg['apertures'] is None else len(pkg['apertures'])
    aidx = list(range(nap))
    if pkg.get('ap_storage') == 'desc':
        aidx = aidx[::-1]
    elif pkg.get('ap_storage') == 'shuffled':
        aidx = list(pkg['ap_shuffle'])
    stored_aps = None if pkg['apertures'] is None else [pkg['apertures'][a] for a in aidx]
    layout = pkg.get('sed_layout', 'flat') if fmt == 'v1' else 'flat'
    pkgio.write_conf(model_dir, pkg['apdep'], pkg['logd_step'], version=None if fmt == 'v1' else 2,
                     length_subdir=2 if layout.startswith('sub') else 0, style=pkg.get('conf_style', 0))
    if fmt == 'v1':
        sapu = pkg.get('sed_ap_unit', 'AU')    # (only set by checks that compare apertures as lengths)
        os.mkdir(os.path.join(model_dir, 'seds'))
        for m, name in enumerate(names):
            mwav, midx = swav, idx
            if pkg.get('wav_by_model') and pkg['wav_by_model'][m] is not None:
                # per-file packages may hold SEDs on different wavelength grids (the convolver re-bins the filters)
                w = list(pkg['wav_by_model'][m])
                midx = list(range(len(w)))
                if pkg['storage'] == 'desc':
                    midx = midx[::-1]
                mwav = [w[i] for i in midx]
            unit = pkg.get('sed_unit', 'mJy')
            if unit == 'mJy':
                fac = [1.] * len(mwav)
            elif unit == 'Jy':
                fac = [1e-3] * len(mwav)
            else:   # nu F_nu in erg/cm^2/s: 1 mJy = 1e-26 erg/s/cm^2/Hz
                fac = [1e-26 * om.C_UM_HZ / w for w in mwav]
            fl = [[pkg['flux'][m][a][i] * fac[p] for p, i in enumerate(midx)] for a in aidx]
            eunit = pkg.get('sed_err_unit', 'same')
            if eunit == 'same':
                eunit, efac = unit, fac
            else:   # the error column carries its own unit string
                efac = [1e-3 if eunit == 'Jy' else 1.] * len(mwav)
            er = [[pkg['err'][m][a][i] * efac[p] for p, i in enumerate(midx)] for a in aidx]
            legacy = unit == 'ergs/cm^2/s'
            sdir = os.path.join(model_dir, 'seds')
            if layout.startswith('sub'):
                sdir = os.path.join(sdir, name[:2])
                if not os.path.isdir(sdir):
                    os.mkdir(sdir)
            gz = layout.endswith('gz') or (layout == 'mixed' and m % 2 == 1)
            pkgio.write_sed_file(os.path.join(sdir, name + '_sed.fits' + ('.gz' if gz else '')), name, mwav, pkgio.wav_to_nu(mwav),
                                 None if stored_aps is None else [a * gen.AP_UNIT_FACTOR[sapu] for a in stored_aps], fl, er,
                                 flux_unit=unit, err_unit=eunit, ap_unit=sapu, hdu3_layout=pkg.get('hdu3_layout', 'standard'),
                                 stellar_unit=pkg.get('stellar_unit'),
                                 wav_unit='MICRONS' if legacy else 'um', nu_unit='HZ' if legacy else 'Hz')
        pkgio.write_parameters(model_dir, names, pkg['params'], order=pkg['perm'], gz=bool(pkg.get('par_gz')))
    else:
        cfac = CUBE_UNITS[pkg.get('cube_unit', 'mJy')][0]
        uunit = pkg.get('cube_unc_unit', 'same')
        if uunit == 'same':
            uunit = pkg.get('cube_unit', 'mJy')
        ufac = CUBE_UNITS[uunit][0]
        val = [[[pkg['flux'][m][a][i] * cfac for i in idx] for a in aidx] for m in range(n)]
        unc = [[[pkg['err'][m][a][i] * ufac for i in idx] for a in aidx] for m in range(n)]
        import numpy as np
        apu = pkg.get('cube_ap_unit', 'AU')     # (only set by checks that compare in AU)
        cube_aps = None if stored_aps is None else [a * gen.AP_UNIT_FACTOR[apu] for a in stored_aps]
        pkgio.write_cube(os.path.join(model_dir, 'flux.fits'), names, swav, cube_aps, val, unc,
                         dtype=np.float64 if pkg['cube_dtype'] == 'f8' else np.float32,
                         val_unit=CUBE_UNITS[pkg.get('cube_unit', 'mJy')][1], unc_unit=CUBE_UNITS[uunit][1], ap_unit=apu)
        pkgio.write_parameters(model_dir, names, pkg['params'], gz=bool(pkg.get('par_gz')))   # cube format: same order as the cube


def reference_convolved(pkg, filt, filter_integral_norm=True):
    """-> flux[m][a], err[m][a] (floats) for one filter, by the exact rebinning on the package's frequency grid."""
    nap = 1 if pkg['apertures'] is None else len(pkg['apertures'])
    flux, err = [], []
    cache = {}
    for m in range(len(pkg['names'])):
        wav = pkg['wav']
        if pkg.get('wav_by_model') and pkg['wav_by_model'][m] is not None:
            wav = pkg['wav_by_model'][m]
        key = tuple(wav)
        if key not in cache:
            nu = [om.C_UM_HZ / w for w in wav]          # descending frequency; order does not matter for R_i
            R, total = om.rebin_reference(filt['nu'], filt['response'], nu)
            if filt.get('normalize'):
                R = [r / total for r in R]
            cache[key] = R
        R = cache[key]
        fr, er = [], []
        for a in range(nap):
            fr.append(float(sum(Fr(pkg['flux'][m][a][i]) * R[i] for i in range(len(wav)))))
            er.append(math.sqrt(float(sum((Fr(pkg['err'][m][a][i]) * R[i]) ** 2 for i in range(len(wav))))))
        flux.append(fr)
        err.append(er)
    return flux, err


def stored_ap_index(pkg):
    """position p of the stored aperture axis -> index into the (ascending) abstract aperture list"""
    nap = 1 if pkg['apertures'] is None else len(pkg['apertures'])
    aidx = list(range(nap))
    if pkg.get('ap_storage') == 'desc':
        aidx = aidx[::-1]
    elif pkg.get('ap_storage') == 'shuffled':
        aidx = list(pkg['ap_shuffle'])
    return aidx


def table_order(pkg, fmt):
    """model names in the order the convolved-flux rows must follow"""
    if fmt == 'v1':
        return [pkg['names'][i] for i in pkg['perm']]
    return list(pkg['names'])
