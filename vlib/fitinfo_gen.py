"""
Directly built fit results (no fitter needed) for C09 / C10 / C18 / C19: strategies for records, construction of
FitInfo objects sharing one metadata set, NaN-aware bit-exact comparison, snapshots.
"""
import math
import struct

import numpy as np
from hypothesis import strategies as st

from . import gen

FLAGS = (0, 1, 2, 3, 4, 9)

chi_values_nonan = st.one_of(st.floats(0., 100., allow_nan=False), st.sampled_from([0., 1., 1., 2.5, 1e30, float('inf')]))
chi_values = st.one_of(chi_values_nonan, chi_values_nonan, st.sampled_from([float('nan')]))
src_names = st.sampled_from(['src_a', 'SSTGLMC_G009.8925-00.3420', 's1', 's2', 'obj-7', 'x', 'B_12', 'zeta', 'q9', 'w.w'])


@st.composite
def source_desc(draw, nfilt, min_data=0, name=None):
    flags = draw(st.lists(st.sampled_from((1, 1, 4, 0, 2, 3, 9)), min_size=nfilt, max_size=nfilt))
    flags = list(flags)
    for j in range(min(min_data, nfilt)):
        if sum(1 for f in flags if f in (1, 4)) >= min_data:
            break
        flags[j] = 1
    # (a flag-4 point carries log10 of the flux in mJy: zero or negative for anything at or below 1 mJy)
    flux = [draw(st.sampled_from([-2.75, -0.3, 0., 0.4, 1.9])) if f == 4 else draw(gen.logfloat(1e-3, 1e3)) for f in flags]
    err = [draw(gen.logfloat(1e-3, 0.5)) if f in (1, 4) else draw(st.sampled_from([0., 0.5, 1.])) for f in flags]
    src = {'name': name or draw(src_names), 'x': draw(st.sampled_from([0., 9.8925, 271.25])),
           'y': draw(st.sampled_from([0., -0.342])), 'flags': flags, 'flux': flux, 'err': err,
           # how the catalogue typed the flags (default, narrow, unsigned or floating-point numbers)
           'flag_dtype': draw(gen.FLAG_DTYPES)}
    if 4 not in flags and draw(st.integers(0, 4)) == 0:
        # photometry in whole numbers, reaching the Source as integer arrays (records of one file then differ in layout)
        src['flux'] = [float(max(1, round(v))) for v in flux]
        src['err'] = [float(max(1, round(e))) if f in (1, 0, 9) else e for f, e in zip(flags, err)]
        src['int_arrays'] = True
    return src


@st.composite
def record_desc(draw, model_names, nfilt, with_fluxes=None, min_fits=0, max_fits=None, min_data=0, name=None,
                allow_nan=True):
    n_all = len(model_names)
    hi = n_all if max_fits is None else min(max_fits, n_all)
    n = draw(st.integers(min(min_fits, hi), hi))
    which = draw(st.permutations(list(range(n_all))))[:n]
    vals = chi_values if allow_nan else chi_values_nonan
    chi2 = draw(st.lists(vals, min_size=n, max_size=n))
    av = [draw(st.floats(-5., 40., allow_nan=False)) for _ in range(n)]
    sc = [draw(st.floats(-3., 3., allow_nan=False)) for _ in range(n)]
    wf = draw(st.booleans()) if with_fluxes is None else with_fluxes
    fl = [[draw(st.floats(-8., 8., allow_nan=False)) for _ in range(nfilt)] for _ in range(n)] if wf else None
    return {'source': draw(source_desc(nfilt, min_data=min_data, name=name)), 'models': list(which), 'chi2': chi2,
            'av': av, 'sc': sc, 'fluxes': fl}


class Meta(object):
    """The objects every record of one run shares (as Fitter.fit attaches them)."""

    def __init__(self, model_dir, filter_wavs, thetas, law):
        from astropy import units as u
        self.model_dir = model_dir
        self.filters = [{'aperture_arcsec': float(t), 'name': 'F%d' % i, 'wav': w * u.micron}
                        for i, (w, t) in enumerate(zip(filter_wavs, thetas))]
        self.extinction_law = gen.law_object(law)


def build_info(rec, model_names, meta, sort=True, source=None):
    from sedfitter.fit_info import FitInfo
    info = FitInfo(gen.source_object(rec['source']) if source is None else source)
    n = len(rec['chi2'])
    info.chi2 = np.array(rec['chi2'], dtype=float)
    info.av = np.array(rec['av'], dtype=float)
    info.sc = np.array(rec['sc'], dtype=float)
    info.model_name = np.array([model_names[i] for i in rec['models']], dtype='U30')
    nf = len(rec['source']['flags'])
    info.model_fluxes = None if rec['fluxes'] is None else np.array(rec['fluxes'], dtype=float).reshape(n, nf)
    if sort:
        info.sort()
        # model_id as a fitter would give it: index into the package order
        info.model_id = np.array([model_names.index(str(x)) for x in info.model_name], dtype=int)
    else:
        info.model_id = np.array(rec['models'], dtype=int)
    info.meta.model_dir = meta.model_dir
    info.meta.filters = meta.filters
    info.meta.extinction_law = meta.extinction_law
    return info


def _bits(arr):
    a = np.asarray(arr)
    if a.dtype.kind == 'f':
        return (str(a.dtype), a.shape, a.tobytes())
    if a.dtype.kind in 'US':
        return ('str', a.shape, tuple(str(x) for x in a.ravel()))
    return ('int', a.shape, tuple(int(x) for x in a.ravel()))


def snapshot(info):
    """Hashable, bit-exact (NaN-aware by construction: bytes are compared) picture of a record."""
    s = info.source
    parts = [('name', s.name), ('x', float(s.x)), ('y', float(s.y)), ('valid', _bits(s.valid)), ('flux', _bits(s.flux)),
             ('error', _bits(s.error))]
    for key in ('av', 'sc', 'chi2', 'model_id', 'model_name'):
        v = getattr(info, key)
        parts.append((key, None if v is None else _bits(v)))
    parts.append(('model_fluxes', None if info.model_fluxes is None else _bits(info.model_fluxes)))
    return tuple(parts)


def diff_snapshots(a, b):
    """None if equal, else the name of the first differing part (int dtype width is not significant)."""
    for (ka, va), (kb, vb) in zip(a, b):
        if va != vb:
            return ka
    return None


def meta_snapshot(meta):
    from astropy import units as u
    f = []
    for d in meta.filters:
        f.append((d.get('name'), float(d['aperture_arcsec']), float(d['wav'].to(u.micron).value)))
    law = meta.extinction_law
    return (meta.model_dir, tuple(f), np.asarray(law.wav.to(u.micron).value).tobytes(),
            np.asarray(law.chi.to(u.cm ** 2 / u.g).value).tobytes())


def write_fit_file(path, infos):
    from sedfitter.fit_info import FitInfoFile
    fout = FitInfoFile(path, 'w')
    for info in infos:
        fout.write(info)
    fout.close()


def write_fit_file_reusing(path, recs, model_names, meta, upto=None):
    """ONE Source object serves every record: before each fit it is given the next name / photometry (attributes re-assigned,
    or the arrays edited in place), as in a loop that perturbs the photometry of a source and writes each result right
    away.  -> bit-exact snapshots taken at the time of each write."""
    from sedfitter.fit_info import FitInfoFile
    fout = FitInfoFile(path, 'w')
    shared, snaps = None, []
    try:
        for i, rec in enumerate(recs if upto is None else recs[:upto]):
            fresh = gen.source_object(rec['source'])
            if shared is None:
                shared = fresh
            else:
                shared.name, shared.x, shared.y = fresh.name, fresh.x, fresh.y
                in_place = i % 2 == 0 and all(getattr(shared, k).dtype == getattr(fresh, k).dtype and
                                              getattr(shared, k).shape == getattr(fresh, k).shape for k in ('valid', 'flux', 'error'))
                if in_place:
                    shared.valid[:] = fresh.valid
                    shared.flux[:] = fresh.flux
                    shared.error[:] = fresh.error
                else:
                    shared.valid, shared.flux, shared.error = fresh.valid, fresh.flux, fresh.error
            info = build_info(rec, model_names, meta, source=shared)
            fout.write(info)
            snaps.append(snapshot(info))
    finally:
        fout.close()
    return snaps


def read_fit_file(path):
    from sedfitter.fit_info import FitInfoFile
    fin = FitInfoFile(path, 'r')
    try:
        out = [info for info in fin]
        meta = fin.meta
    finally:
        fin.close()
    return out, meta
