"""
Reference fitter written from the property statements C01-C04 (no numpy vectorisation, no sedfitter code).

The float64 inputs (log fluxes, extinction pattern, weights) are converted to fractions.Fraction and the
normal equations / box constraint / objective are evaluated EXACTLY; tolerances are derived per case from the
exact quantities (DESIGN.md 2.2).
"""
import math
from fractions import Fraction as Fr

LN10 = math.log(10.)
PC_AU = 206264.80624709636  # 1 pc / 1 au  ( = 1 arcsec^-1 in radians^-1 )


# ------------------------------------------------------------------------------------------------
# extinction pattern
# ------------------------------------------------------------------------------------------------

def interp_linear(xs, ys, x):
    """Linear interpolation on increasing xs; None outside [xs[0], xs[-1]]."""
    if x < xs[0] or x > xs[-1]:
        return None
    for i in range(len(xs) - 1):
        if xs[i] <= x <= xs[i + 1]:
            if x == xs[i]:
                return ys[i]
            if x == xs[i + 1]:
                return ys[i + 1]
            t = (x - xs[i]) / (xs[i + 1] - xs[i])
            return ys[i] + t * (ys[i + 1] - ys[i])
    return ys[-1]


def extinction_pattern(law_wav_um, law_chi, wav_um):
    """k(lambda) = -0.4 chi(lambda)/chi(0.55um), 0 outside the table."""
    chiv = interp_linear(law_wav_um, law_chi, 0.55)
    out = []
    for w in wav_um:
        c = interp_linear(law_wav_um, law_chi, w)
        out.append(0. if c is None else -0.4 * c / chiv)
    return out


# ------------------------------------------------------------------------------------------------
# data transform
# ------------------------------------------------------------------------------------------------

def transform_source(flags, flux, err):
    """
    Per band: (kind, y, w, conf)   kind in 'fit' | 'lower' | 'upper' | 'ignored'
    fit:   y = log10 flux (Jensen-corrected for flag 1), w = weight
    limit: y = log10 flux, conf = confidence
    """
    out = []
    for f, a, b in zip(flags, flux, err):
        if f == 1:
            y = math.log10(a) - 0.5 * (b / a) ** 2 / LN10
            e = abs(b / a) / LN10
            out.append(('fit', y, 1. / e ** 2, None))
        elif f == 4:
            out.append(('fit', a, 1. / b ** 2, None))
        elif f == 2:
            out.append(('lower', math.log10(a), 0., b))
        elif f == 3:
            out.append(('upper', math.log10(a), 0., b))
        else:
            out.append(('ignored', None, 0., None))
    return out


def penalty_value(conf):
    if conf >= 1.:
        return 1.e30
    if conf <= 0.:
        return 0.
    return -2. * math.log(1. - conf)


# ------------------------------------------------------------------------------------------------
# 2-parameter (distance-independent) reference
# ------------------------------------------------------------------------------------------------

class Ref2D(object):
    """Exact least squares for one (source, model): minimise sum w (r - av k + 2 sc)^2, lo<=av<=hi."""

    def __init__(self, bands, logmodel, k, lo, hi):
        self.bands = bands
        self.logmodel = logmodel
        self.k = k
        self.lo, self.hi = lo, hi
        self.fit = [(Fr(b[2]), Fr(b[1]) - Fr(L), Fr(kk)) for b, L, kk in zip(bands, logmodel, k) if b[0] == 'fit']
        w_r_k = self.fit
        self.Sw = sum(w for w, r, kk in w_r_k)
        self.Swk = sum(w * kk for w, r, kk in w_r_k)
        self.Swkk = sum(w * kk * kk for w, r, kk in w_r_k)
        self.Swr = sum(w * r for w, r, kk in w_r_k)
        self.Swrk = sum(w * r * kk for w, r, kk in w_r_k)
        self.T = sum(w * r * r for w, r, kk in w_r_k)
        # normal matrix for p = (av, sc):  model = av*k - 2 sc
        self.m11 = self.Swkk
        self.m12 = -2 * self.Swk
        self.m22 = 4 * self.Sw
        self.det = self.m11 * self.m22 - self.m12 * self.m12
        self.singular = (len(self.fit) < 2) or self.det == 0
        self._solve()

    def objective(self, av, sc):
        av, sc = Fr(av), Fr(sc)
        return sum(w * (r - av * kk + 2 * sc) ** 2 for w, r, kk in self.fit)

    def sc_given_av(self, av):
        # d/dsc: sum w (r - av k + 2 sc) = 0
        return -(self.Swr - av * self.Swk) / (2 * self.Sw)

    def _solve(self):
        if self.singular:
            self.av_star = self.sc_star = self.S_star = None
            self.cond = float('inf')
            return
        c1 = self.Swrk
        c2 = -2 * self.Swr
        av = (self.m22 * c1 - self.m12 * c2) / self.det
        self.av_free = av
        lo, hi = Fr(self.lo), Fr(self.hi)
        self.clamped = None
        if av < lo:
            av = lo
            self.clamped = 'lo'
        elif av > hi:
            av = hi
            self.clamped = 'hi'
        sc = self.sc_given_av(av)
        self.av_star, self.sc_star = av, sc
        self.S_star = self.objective(av, sc)
        # condition number of the 2x2 normal matrix (floats are enough here)
        a, b, d = float(self.m11), float(self.m12), float(self.m22)
        tr, dt = a + d, a * d - b * b
        disc = math.sqrt(max(tr * tr / 4 - dt, 0.))
        l1, l2 = tr / 2 + disc, tr / 2 - disc
        if l2 <= 0:
            l2 = float(self.det) / l1 if l1 > 0 else 0.
        self.cond = l1 / l2 if l2 > 0 else float('inf')

    def predicted(self, j, av, sc):
        return self.logmodel[j] + av * self.k[j] - 2. * sc

    def penalties(self, av, sc, margin=1e-9):
        """-> (sure, maybe): penalty certainly incurred, and additional penalty that may be incurred (ambiguous)."""
        sure, maybe = 0., 0.
        for j, b in enumerate(self.bands):
            if b[0] not in ('lower', 'upper'):
                continue
            pred = self.predicted(j, av, sc)
            pen = penalty_value(b[3])
            diff = pred - b[1]
            if abs(diff) <= margin:
                maybe += pen
            elif (b[0] == 'lower' and diff < 0) or (b[0] == 'upper' and diff > 0):
                sure += pen
        return sure, maybe


def float32_slack(bands, logmodel, k, av, sc):
    """first-order bound on the change of the objective when every model log flux moves by its float32 resolution:
    storage 6e-8 relative in flux (2.6e-8 dex) + log10 evaluated in float32 (1.2e-7 relative to |log flux|)"""
    slack = 0.
    for b, L, kk in zip(bands, logmodel, k):
        if b[0] != 'fit':
            continue
        delta = 3e-7 * max(1., abs(L)) + 1e-7
        res = abs(b[1] - L - av * kk + 2. * sc)
        slack += b[2] * (2. * res * delta + delta * delta)
    return 2. * slack


def check_fit_2d(ref, av, sc, chi2, float32=False, what=''):
    """
    Returns None if (av, sc, chi2) is acceptable for this reference problem, else (signature, message).
    """
    if not (av == av and sc == sc):
        return ('c01:nan', '%s: A_V/scale is NaN (av=%r sc=%r)' % (what, av, sc))
    if not (ref.lo - 1e-12 <= av <= ref.hi + 1e-12):
        return ('c01:infeasible', '%s: A_V %r outside the requested range [%r, %r]' % (what, av, ref.lo, ref.hi))
    T = float(ref.T)
    S_rep = float(ref.objective(av, sc))
    S_star = float(ref.S_star)
    slack = 0.
    margin = 1e-9
    if float32:
        # model fluxes stored as float32 and their log10 taken in float32 (documented lossy step)
        slack = float32_slack(ref.bands, ref.logmodel, ref.k, av, sc)
        margin = 1e-5
    # closed-form float64 solutions lose ~eps*cond relative accuracy in the parameters, i.e. an objective
    # excess of ~(eps*cond)^2 * T: negligible for cond <= 1e8, dominant for nearly singular (but legal) inputs
    scale = max(T, S_star)  # a clamped optimum can sit far above sum(w r^2)
    gap_tol = (1e-10 + 100. * (2.3e-16 * ref.cond) ** 2) * scale + 1e-12 + slack
    if S_rep - S_star > gap_tol:
        return ('c01:not_optimal', '%s: objective at reported (av=%r, sc=%r) is %r but the constrained minimum is %r '
                '(at av=%r, sc=%r); gap %.3e > tol %.3e' % (what, av, sc, S_rep, S_star, float(ref.av_star),
                                                            float(ref.sc_star), S_rep - S_star, gap_tol))
    if ref.cond <= 1e8 and not float32:
        pa, ps = float(ref.av_star), float(ref.sc_star)
        tol = 1e-6 * (1 + max(abs(pa), abs(ps)))
        if not (abs(av - pa) <= tol) or not (abs(sc - ps) <= tol):
            return ('c01:parameters', '%s: reported (av=%r, sc=%r) differs from the optimum (av=%r, sc=%r)' % (
                what, av, sc, pa, ps))
    sure, maybe = ref.penalties(av, sc, margin)
    lo_c, hi_c = S_rep + sure, S_rep + sure + maybe
    tol = 1e-9 * (max(T, S_rep) + sure + maybe) + 1e-9 + slack
    if not (lo_c - tol <= chi2 <= hi_c + tol):
        return ('c01:chi2_bookkeeping', '%s: reported chi2 %r but objective %r + penalties %r (ambiguous +%r) at the '
                'reported point' % (what, chi2, S_rep, sure, maybe))
    return None


# ------------------------------------------------------------------------------------------------
# distance-dependent reference
# ------------------------------------------------------------------------------------------------

def distance_grid(dmin_kpc, dmax_kpc, step):
    """-> list of acceptable grids (lists of kpc): log-uniform, both ends, fewest points with spacing <= step."""
    if dmin_kpc == dmax_kpc:
        return [[dmin_kpc]]
    dlog = math.log10(dmax_kpc) - math.log10(dmin_kpc)
    ratio = dlog / step
    ns = set()
    n = int(math.ceil(1 + ratio))
    ns.add(max(n, 2))
    near = round(ratio)
    if abs(ratio - near) <= 1e-9 * max(1., abs(ratio)):
        ns.add(max(int(near) + 1, 2))
        ns.add(max(int(near) + 2, 2))
    grids = []
    for n in sorted(ns):
        l0, l1 = math.log10(dmin_kpc), math.log10(dmax_kpc)
        grids.append([10. ** (l0 + (l1 - l0) * i / (n - 1)) for i in range(n)])
    return grids


def aperture_flux(ap_table, row, ap):
    """Tabulated flux interpolated linearly to aperture ap (same unit as table); clamp above; None below."""
    if len(ap_table) == 1:
        return row[0]
    if ap >= ap_table[-1]:
        return row[-1]
    if ap < ap_table[0]:
        return None
    return interp_linear(ap_table, row, ap)


class Ref3D(object):
    """
    One (source, model) in distance-dependent mode.
    flux_table[j][a]: convolved flux (mJy at 1 kpc) of band j in tabulated aperture a (AU), theta[j] arcsec.
    """

    def __init__(self, bands, flux_table, ap_table, theta, k, lo, hi, distances_kpc):
        self.bands, self.k, self.lo, self.hi = bands, k, lo, hi
        self.distances = distances_kpc
        self.rows = []
        self.dlog = []   # rounding sensitivity of each model log flux to a 1-ulp change of the requested aperture
        per_band = len(ap_table) > 0 and isinstance(ap_table[0], (list, tuple))
        for d in distances_kpc:
            logm, dl = [], []
            for j in range(len(bands)):
                ap_au = theta[j] * d * 1000.  # arcsec * pc = AU
                tab = ap_table[j] if per_band else ap_table
                fl = aperture_flux(tab, flux_table[j], ap_au)
                if fl is None:
                    raise ValueError('aperture below the table')
                logm.append(math.log10(fl * (1. / d) ** 2))
                slope = 0.
                if len(tab) > 1 and ap_au < tab[-1]:
                    for i in range(len(tab) - 1):
                        if tab[i] <= ap_au <= tab[i + 1]:
                            slope = max(slope, abs((flux_table[j][i + 1] - flux_table[j][i]) / (tab[i + 1] - tab[i])))
                # (ap - a_i) is formed by subtraction: absolute error ~eps*ap, i.e. eps*ap*slope in the flux
                dl.append(4.5e-16 * slope * ap_au / (fl * LN10))
            self.rows.append(logm)
            self.dlog.append(dl)

    def at_distance(self, i, margin=1e-9):
        """-> dict(av, S, sure, maybe, T, scale_av) at grid distance i (floats from exact arithmetic)."""
        logm = self.rows[i]
        fit = [(Fr(b[2]), Fr(b[1]) - Fr(L), Fr(kk)) for b, L, kk in zip(self.bands, logm, self.k) if b[0] == 'fit']
        swkk = sum(w * kk * kk for w, r, kk in fit)
        swrk = sum(w * r * kk for w, r, kk in fit)
        T = sum(w * r * r for w, r, kk in fit)
        if swkk == 0:
            return None
        av_free = swrk / swkk
        av = min(max(av_free, Fr(self.lo)), Fr(self.hi))
        S = sum(w * (r - av * kk) ** 2 for w, r, kk in fit)
        avf = float(av)
        sure = maybe = 0.
        for j, b in enumerate(self.bands):
            if b[0] not in ('lower', 'upper'):
                continue
            diff = logm[j] + avf * self.k[j] - b[1]
            pen = penalty_value(b[3])
            if abs(diff) <= margin:
                maybe += pen
            elif (b[0] == 'lower' and diff < 0) or (b[0] == 'upper' and diff > 0):
                sure += pen
        sabs = sum(float(w) * abs(float(r)) * abs(float(kk)) for w, r, kk in fit)
        # the residuals themselves are differences of log fluxes of order |log F|: each carries an absolute rounding error of
        # a few eps x (|log data| + |log model|) however small it is, which A_V = sum(w k r) / sum(w k^2) amplifies by 1/|k|
        sabs += 1e-4 * sum(float(Fr(b[2])) * abs(kk) * (abs(b[1]) + abs(L))
                           for b, L, kk in zip(self.bands, logm, self.k) if b[0] == 'fit')
        cond_slack = 0.
        for (bb, L, kk, dL) in zip(self.bands, logm, self.k, self.dlog[i]):
            if bb[0] == 'fit' and dL > 0.:
                res = abs(bb[1] - L - avf * kk)
                cond_slack += bb[2] * (2. * res * dL + dL * dL)
        return {'av': avf, 'S': float(S), 'sure': sure, 'maybe': maybe, 'T': float(T), 'cond_slack': 2. * cond_slack,
                'av_tol': 1e-10 * sabs / float(swkk) + 1e-12, 'fit': fit, 'logm': logm}

    def objective_at(self, i, av):
        logm = self.rows[i]
        fit = [(Fr(b[2]), Fr(b[1]) - Fr(L), Fr(kk)) for b, L, kk in zip(self.bands, logm, self.k) if b[0] == 'fit']
        a = Fr(av)
        return float(sum(w * (r - a * kk) ** 2 for w, r, kk in fit))
