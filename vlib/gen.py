"""
Shared Hypothesis strategies and package builders (DESIGN.md 2.3).  Sound first, then complete;
construction, not rejection.  Every case is a plain JSON value.
"""
import os
import math

from hypothesis import strategies as st

from . import pkgio
from . import oracle_fit as of

FLAGS = (0, 1, 2, 3, 4, 9)


def logfloat(lo, hi):
    """log-uniform float in [lo, hi]"""
    return st.floats(math.log10(lo), math.log10(hi), allow_nan=False).map(lambda e: 10. ** e)


@st.composite
def increasing(draw, n, lo, hi, min_ratio=1.02):
    """n strictly increasing log-uniform values in [lo, hi] (constructed, not filtered)."""
    span = math.log10(hi / lo)
    cuts = sorted(draw(st.lists(st.floats(0., 1., allow_nan=False), min_size=n, max_size=n)))
    out = []
    prev = None
    for c in cuts:
        v = lo * 10. ** (c * span)
        if prev is not None and v < prev * min_ratio:
            v = prev * min_ratio
        out.append(v)
        prev = v
    return out


# ------------------------------------------------------------------------------------------------
# extinction laws
# ------------------------------------------------------------------------------------------------

@st.composite
def laws(draw, max_rows=12):
    n = draw(st.integers(2, max_rows))
    first = draw(logfloat(0.01, 0.5))
    last = draw(logfloat(0.6, 1000.))
    if n > 2:
        mid = draw(increasing(n - 2, first * 1.05, last / 1.05, 1.0005))
        mid = [m for m in mid if first < m < last]
    else:
        mid = []
    wav = [first] + mid + [last]
    if draw(st.booleans()) and len(wav) > 2:
        wav[draw(st.integers(1, len(wav) - 2))] = 0.55  # node exactly at V (kept sorted below)
        wav = sorted(set(wav))
    chi = draw(st.lists(logfloat(1e-2, 1e4), min_size=len(wav), max_size=len(wav)))
    return {'wav': wav, 'chi': chi}


@st.composite
def wide_laws(draw, max_rows=10):
    """laws that cover 0.05..600 micron with opacities within 2 decades (pipeline checks: every filter gets a non-zero,
    moderate extinction coefficient)"""
    n = draw(st.integers(3, max_rows))
    first = draw(logfloat(0.01, 0.05))
    last = draw(logfloat(600., 1000.))
    mid = draw(increasing(n - 2, 0.06, 550., 1.01))
    wav = [first] + mid + [last]
    chi = draw(st.lists(logfloat(0.1, 10.), min_size=len(wav), max_size=len(wav)))
    return {'wav': wav, 'chi': chi}


def law_object(law, wav_unit='um', chi_unit='cm2/g'):
    from astropy import units as u
    from sedfitter.extinction import Extinction
    e = Extinction()
    wu = {'um': u.micron, 'nm': u.nm, 'cm': u.cm, 'm': u.m, 'AA': u.AA}[wav_unit]
    cu = {'cm2/g': u.cm ** 2 / u.g, 'm2/kg': u.m ** 2 / u.kg}[chi_unit]
    import numpy as np
    e.wav = (np.array(law['wav']) * u.micron).to(wu) if wav_unit != 'um' else np.array(law['wav']) * u.micron
    e.chi = (np.array(law['chi']) * (u.cm ** 2 / u.g)).to(cu) if chi_unit != 'cm2/g' else np.array(law['chi']) * (u.cm ** 2 / u.g)
    return e


# ------------------------------------------------------------------------------------------------
# filters of a fit
# ------------------------------------------------------------------------------------------------

_filter_names = ['2J', 'I1', 'M1', 'alice', 'bob', 'eve', 'S3', 'W4', 'x_9', 'PACS70']


@st.composite
def fit_filters(draw, law, nmin=2, nmax=6):
    n = draw(st.integers(nmin, nmax))
    wavs = []
    for i in range(n):
        kind = draw(st.sampled_from(['in', 'in', 'in', 'node', 'out']))
        if kind == 'node':
            w = draw(st.sampled_from(law['wav']))
        elif kind == 'out':
            w = draw(st.one_of(logfloat(law['wav'][-1] * 1.01, law['wav'][-1] * 30.),
                               logfloat(law['wav'][0] / 30., law['wav'][0] / 1.01)))
        else:
            w = draw(logfloat(law['wav'][0], law['wav'][-1]))
        while any(abs(w - x) <= 1e-9 * x for x in wavs):
            w = w * 1.0371
        wavs.append(w)
    names = draw(st.permutations(_filter_names))[:n]
    return [{'name': nm, 'wav': w} for nm, w in zip(names, wavs)]


# ------------------------------------------------------------------------------------------------
# sources
# ------------------------------------------------------------------------------------------------

ignored_values = st.one_of(st.sampled_from([-999., 0., -9.999e2, 1e30, -1e-5, 1.]), logfloat(1e-6, 1e6),
                           logfloat(1e-6, 1e6).map(lambda v: -v))
confidences = st.one_of(st.sampled_from([0., 1., 0.5, 0.9]), st.floats(0.001, 0.999, allow_nan=False))


@st.composite
def band_values(draw, flag, target_log=None, sigma=0., ignored='any'):
    """(flux, error) for one band.  target_log: log10 flux the point should be near (or None)."""
    if flag in (0, 9):
        if ignored == 'positive':
            return draw(logfloat(1e-6, 1e6)), draw(logfloat(1e-6, 1e6))
        return draw(ignored_values), draw(ignored_values)
    if target_log is None:
        lf = draw(st.floats(-6., 6., allow_nan=False))
    else:
        lf = target_log + sigma * draw(st.floats(-1., 1., allow_nan=False))
        lf = min(max(lf, -30.), 30.)
    if flag == 1:
        rel = draw(logfloat(1e-3, 1.))
        f = 10. ** lf
        return f, f * rel
    if flag == 4:
        return lf, draw(logfloat(4e-4, 0.45))
    # limits
    return 10. ** lf, draw(confidences)


@st.composite
def sources(draw, nfilt, k=None, logmodels=None, min_fit=2, flags=None, distance_mode=False, name=None,
            ignored='any'):
    """
    A source for nfilt bands.  If k is given, at least `min_fit` fitted points are placed on bands such that the
    regression is non-singular (2-D: two different k; distance mode: one non-zero k) whenever that is possible.
    """
    if flags is None:
        flags = draw(st.lists(st.sampled_from((1, 1, 1, 4, 4, 0, 2, 3, 9)), min_size=nfilt, max_size=nfilt))
        flags = list(flags)
        if k is not None:
            if distance_mode:
                good = [j for j in range(nfilt) if k[j] != 0.]
                if good and not any(flags[j] in (1, 4) for j in good):
                    flags[draw(st.sampled_from(good))] = draw(st.sampled_from((1, 4)))
            else:
                pairs = [(a, b) for a in range(nfilt) for b in range(a + 1, nfilt) if k[a] != k[b]]
                fitted = [j for j in range(nfilt) if flags[j] in (1, 4)]
                if pairs and not any(k[a] != k[b] for a in fitted for b in fitted):
                    a, b = draw(st.sampled_from(pairs))
                    flags[a] = draw(st.sampled_from((1, 4)))
                    flags[b] = draw(st.sampled_from((1, 4)))
    # photometry: random, or planted near a reddened/scaled model
    planted = None
    targets = [None] * nfilt
    sigma = 0.
    if logmodels and draw(st.booleans()):
        m0 = draw(st.integers(0, len(logmodels) - 1))
        av0 = draw(st.one_of(st.floats(-5., 30., allow_nan=False), st.sampled_from([0., 1., 10.])))
        sc0 = draw(st.floats(-2., 2., allow_nan=False)) if not distance_mode else 0.
        sigma = draw(st.sampled_from([0., 1e-3, 0.05, 0.5, 3.]))
        kk = k if k is not None else [0.] * nfilt
        targets = [logmodels[m0][j] + av0 * kk[j] - 2. * sc0 for j in range(nfilt)]
        planted = [m0, av0, sc0, sigma]
    flux, err = [], []
    for j in range(nfilt):
        f, e = draw(band_values(flags[j], targets[j], sigma, ignored))
        flux.append(f)
        err.append(e)
    return {'name': name or draw(st.sampled_from(['src', 'SSTGLMC_G009.8925-00.3420', 's_1', 'a'])),
            'x': draw(st.sampled_from([0., 9.8925, 271.25])), 'y': draw(st.sampled_from([0., -0.342, 45.5])),
            'flags': flags, 'flux': flux, 'err': err, 'planted': planted,
            # the flag vector is any 1-d sequence of whole numbers: numpy's default integers, the narrow or unsigned
            # integers of a catalogue / FITS column, or floats
            'flag_dtype': draw(FLAG_DTYPES)}


# units the wavelength axis of a cube may be typed in (only set by checks that look at wavelengths as lengths)
CUBE_WAV_UNITS = {'um': ('um', 1.), 'nm': ('nm', 1e3), 'mm': ('mm', 1e-3), 'AA': ('Angstrom', 1e4)}


def reversed_case(case):
    """the same package fitted with its filters listed in reverse order (for a second Fitter kept alive beside the first)"""
    c = dict(case)
    c['filters'] = list(case['filters'])[::-1]
    c['theta'] = list(case['theta'])[::-1]
    if 'setup' in case:
        c['setup'] = dict(case['setup'], theta=list(case['setup']['theta'])[::-1])
    if case.get('format') == 'v2mixed':
        c['format'] = 'v2wav'     # (which filters go by name depends on their position; the cube holds every slice)
    return c


def tabulated_wav(f):
    """the wavelength the cube tabulates for a filter that is fitted at f['wav'] (see off_grid_requests)"""
    return f['wav'] * f.get('tab_offset', 1.)


def off_grid_requests(draw, c):
    """Cube packages fitted at wavelengths: the wavelength asked for need not be a tabulated one - the nearest slice of the
    cube is used, while everything that depends on the wavelength itself (the extinction coefficient) belongs to the
    wavelength asked for. Here the cube is tabulated a few per cent off the fit wavelengths, far inside the half-way points
    to the neighbouring slices."""
    if c['format'] not in ('v2wav', 'v2mixed'):
        return
    w = sorted(f['wav'] for f in c['filters'])
    if any(b / a < 1.25 for a, b in zip(w, w[1:])) or not draw(st.booleans()):
        return
    for f in c['filters']:
        f['tab_offset'] = draw(st.sampled_from([1., 0.97, 1.03, 1.015]))


FLAG_DTYPES = st.sampled_from(['int', 'int', 'int', 'int32', 'int16', 'int8', 'uint8', 'uint16', 'float'])


def integerize(s):
    """the same kind of source with integer-valued fluxes (and errors): only for flags in {0,1,2,3,9} and confidences 0/1"""
    if any(f == 4 for f in s['flags']):
        return s
    if any(f in (2, 3) and e not in (0., 1.) for f, e in zip(s['flags'], s['err'])):
        return s
    t = dict(s)
    t['flux'] = [float(max(1, round(abs(v)))) if v == v and abs(v) < 1e15 else 1. for v in s['flux']]
    t['err'] = [e if f in (2, 3) else float(max(1, round(abs(e)))) if abs(e) < 1e15 else 1. for f, e in zip(s['flags'], s['err'])]
    t['int_arrays'] = True
    return t


def source_object(s):
    import numpy as np
    from sedfitter.source import Source
    o = Source()
    o.name = s['name']
    o.x = s['x']
    o.y = s['y']
    o.valid = np.array(s['flags'], dtype=np.dtype(s.get('flag_dtype') or 'int'))
    if s.get('int_arrays'):
        # photometry given as Python / numpy integers (legal: the setters accept any 1-d sequence)
        def narrow(vals):
            m = max([abs(int(v)) for v in vals] + [1])
            # (not int16: numpy evaluates log10 and divisions of 16-bit integers in float32, a precision matter and not
            # what the properties are about)
            return np.int32 if m < 2 ** 31 else np.int64
        o.flux = np.array([int(v) for v in s['flux']], dtype=narrow(s['flux']))
        o.error = np.array([int(v) for v in s['err']], dtype=narrow(s['err'])) if all(float(v) == int(v) for v in s['err']) \
            else np.array(s['err'], dtype=float)
    else:
        o.flux = np.array(s['flux'], dtype=float)
        o.error = np.array(s['err'], dtype=float)
    return o


# ------------------------------------------------------------------------------------------------
# A_V ranges
# ------------------------------------------------------------------------------------------------

@st.composite
def av_ranges(draw):
    shape = draw(st.sampled_from(['wide', 'std', 'narrow', 'point', 'neg', 'random', 'high']))
    if shape == 'wide':
        return [-1e3, 1e3]
    if shape == 'std':
        return [0., draw(st.sampled_from([0.1, 10., 40.]))]
    if shape == 'point':
        v = draw(st.one_of(st.just(0.), st.floats(-5., 30., allow_nan=False)))
        return [v, v]
    lo = draw(st.floats(-10., 30., allow_nan=False))
    if shape == 'narrow':
        return [lo, lo + draw(logfloat(1e-3, 1.))]
    if shape == 'neg':
        lo = -abs(lo) - 1.
        return [lo, lo + draw(st.floats(0., 5., allow_nan=False))]
    if shape == 'high':
        lo = 50. + abs(lo)
        return [lo, lo + draw(st.floats(0., 50., allow_nan=False))]
    return [lo, lo + draw(st.floats(0., 40., allow_nan=False))]


# ------------------------------------------------------------------------------------------------
# model grids (already convolved) -- distance-independent
# ------------------------------------------------------------------------------------------------

_model_name_styles = [lambda i: 'model_%04d' % i, lambda i: 'm%d' % (i + 1), lambda i: '30%05d_1' % (7 * i + 3),
                      lambda i: 'Zz%c' % (97 + (i * 7) % 26) + str(i)]


@st.composite
def model_names(draw, n):
    style = draw(st.sampled_from(_model_name_styles))
    names = [style(i) for i in range(n)]
    perm = draw(st.permutations(list(range(n))))
    return [names[i] for i in perm]


def long_names(names):
    """descriptive names of more than 30 characters, several of which share their first 30 (legal in a cube package fitted
    at wavelengths: only the 30-character columns of convolved-flux files limit the length)"""
    return ['atmos_teff%05d_logg4.50_feh+0.00_alpha%d.%d_%s' % (5000 + 250 * (i // 3), i % 3, i, n) for i, n in enumerate(names)]


@st.composite
def grids_2d(draw, nfilt, nmin=1, nmax=8):
    n = draw(st.integers(nmin, nmax))
    logf = [draw(st.lists(st.floats(-6., 6., allow_nan=False), min_size=nfilt, max_size=nfilt)) for _ in range(n)]
    dup = None
    if n >= 2 and draw(st.integers(0, 3)) == 0:
        a = draw(st.integers(0, n - 1))
        b = draw(st.integers(0, n - 1))
        if a != b:
            logf[b] = list(logf[a])  # exact chi^2 tie
            dup = [a, b]
    names = draw(model_names(n))
    return {'names': names, 'logflux': logf, 'dup': dup}


@st.composite
def fit_case_2d(draw, max_models=8, max_filters=6, max_sources=5, formats=('v1', 'v1', 'v2name', 'v2wav', 'v2mixed'),
                ignored='positive'):
    law = draw(laws())
    filters = draw(fit_filters(law, 2, max_filters))
    nf = len(filters)
    k = of.extinction_pattern(law['wav'], law['chi'], [f['wav'] for f in filters])
    grid = draw(grids_2d(nf, 1, max_models))
    ns = draw(st.integers(1, max_sources))
    srcs = [draw(sources(nf, k=k, logmodels=grid['logflux'], ignored=ignored)) for _ in range(ns)]
    if draw(st.integers(0, 5)) == 0:
        # a model equal to the data of the first source (chi^2 = 0 at av=0, sc=0) when all points are fitted
        s = srcs[0]
        bands = of.transform_source(s['flags'], s['flux'], s['err'])
        row = [b[1] if b[0] == 'fit' else grid['logflux'][0][j] for j, b in enumerate(bands)]
        grid['logflux'][0] = [min(max(v, -30.), 30.) for v in row]
    fmt = draw(st.sampled_from(formats))
    if fmt == 'v2wav' and draw(st.integers(0, 3)) == 0:
        grid['names'] = long_names(grid['names'])
    memmap = draw(st.integers(0, 9)) == 0 if fmt != 'v1' else False
    nr = draw(st.integers(1, 2))
    return {'format': fmt, 'memmap': memmap, 'law': law, 'filters': filters, 'grid': grid, 'sources': srcs,
            'av_ranges': [draw(av_ranges()) for _ in range(nr)],
            'law_units': draw(st.sampled_from([['um', 'cm2/g'], ['um', 'cm2/g'], ['nm', 'm2/kg'], ['cm', 'cm2/g']])),
            'theta': draw(st.lists(st.floats(0.5, 10., allow_nan=False), min_size=nf, max_size=nf)),
            # convolved/<filter>.fits and parameters.fits may be gzip-compressed (documented layout)
            'compress': draw(st.sampled_from([None, None, None, None, 'convolved', 'parameters', 'both'])),
            'conf_style': draw(st.sampled_from([0, 0, 0] + list(range(pkgio.N_CONF_STYLES)))),
            # 'v2mixed': a cube package whose filters are given partly by name (convolved files) and partly as wavelengths
            'by_name': [draw(st.booleans()) for _ in range(nf)],
            # the unit the cube / the convolved files are stored in
            'cube_unit': draw(st.sampled_from(['mJy', 'mJy', 'Jy'])), 'conv_unit': draw(st.sampled_from(['mJy', 'mJy', 'Jy']))}


# ------------------------------------------------------------------------------------------------
# building the package of a fit case (2-D) and making a fitter
# ------------------------------------------------------------------------------------------------

def cube_valid_flags(case):
    """the validity array of the cube's primary HDU: in a third of the cube packages some models are flagged 0 (the
    property says a result lists EVERY model of the package; deterministic from the case so that replays reproduce it)"""
    n = len(case['grid']['names'])
    if (n + len(case['filters'])) % 3 != 0:
        return None
    return [0 if (i * 5 + n) % 3 == 0 else 1 for i in range(n)]


def build_package_2d(model_dir, case):
    """Writes models.conf + convolved files (v1 / v2name) or the flux cube (v2*), parameters.fits."""
    names = case['grid']['names']
    logf = case['grid']['logflux']
    filters = case['filters']
    fmt = case['format']
    comp = case.get('compress')
    pkgio.write_conf(model_dir, False, 0.02, version=None if fmt == 'v1' else 2, style=case.get('conf_style', 0))
    pkgio.write_parameters(model_dir, names, {'par1': [float(i) for i in range(len(names))]}, gz=comp in ('parameters', 'both'),
                           width=max([30] + [len(x) for x in names]))
    flux = [[10. ** logf[m][j] for j in range(len(filters))] for m in range(len(names))]
    cunit, vunit = case.get('conv_unit', 'mJy'), case.get('cube_unit', 'mJy')
    cfac, vfac = (1e-3 if cunit == 'Jy' else 1.), (1e-3 if vunit == 'Jy' else 1.)
    if fmt in ('v1', 'v2name', 'v2mixed'):
        for j, f in enumerate(filters):
            col = [[flux[m][j] * cfac] for m in range(len(names))]
            pkgio.write_convolved(model_dir, f['name'], names, f['wav'], None, col, [[0.] for _ in names],
                                  gz=comp in ('convolved', 'both'), unit=cunit)
    if fmt != 'v1':
        order = sorted(range(len(filters)), key=lambda j: filters[j]['wav'])
        wav = [tabulated_wav(filters[j]) for j in order]
        val = [[[flux[m][j] * vfac for j in order]] for m in range(len(names))]
        unc = [[[0.1 * flux[m][j] * vfac for j in order]] for m in range(len(names))]
        cwu, cwf = CUBE_WAV_UNITS[case.get('cube_wav_unit', 'um')]
        pkgio.write_cube(os.path.join(model_dir, 'flux.fits'), names, [w * cwf for w in wav], None, val, unc,
                         valid=cube_valid_flags(case), val_unit=vunit, wav_unit=cwu)


def named_filter(case, j):
    """in a 'v2mixed' case: is filter j given by name (convolved file) rather than as a wavelength?  Filters that share a
    name (the same band through two apertures) are given alike."""
    flags = case.get('by_name') or []
    first = [f['name'] for f in case['filters']].index(case['filters'][j]['name'])
    return bool(flags[first]) if first < len(flags) else first % 2 == 0


def make_fitter(model_dir, case, av_range, distance_range=None):
    import numpy as np
    from astropy import units as u
    from sedfitter import Fitter
    law = law_object(case['law'], *case.get('law_units', ['um', 'cm2/g']))
    # the documented interface takes Quantities: any length unit for a wavelength "filter", any angle unit for apertures
    # (chosen deterministically from the case so that replays reproduce it)
    pick = (len(case['filters']) + len(case['grid']['names'])) % 3
    if case['format'] in ('v2wav', 'v2mixed'):
        wu = [u.micron, u.nm, u.mm][pick]
        if wu is not u.micron and not all(float((f['wav'] * u.micron).to(wu).to(u.micron).value) == f['wav'] for f in case['filters']):
            # only when the round trip is exact: a wavelength that moves by one ulp is no longer a tabulated wavelength
            # (and may cross an end node of the extinction law), which is outside what the checks claim
            wu = u.micron
        fnames = [(f['wav'] * u.micron).to(wu) if wu is not u.micron else f['wav'] * u.micron for f in case['filters']]
        if case['format'] == 'v2mixed':
            fnames = [f['name'] if named_filter(case, j) else fnames[j] for j, f in enumerate(case['filters'])]
    else:
        fnames = [f['name'] for f in case['filters']]
    aps = np.array(case['theta']) * u.arcsec
    alt = None
    if case.get('format') != 'v2wav' and pick == 1:
        alt = aps.to(u.arcmin)
    elif pick == 2:
        alt = aps.to(u.deg)
    if alt is not None and np.all(alt.to(u.arcsec).value == aps.value):
        # only exact round trips: a 1-ulp change of the angle is amplified without bound by a steep aperture table
        aps = alt
    if distance_range is None:
        dr = [1., 2.] * u.kpc
    else:
        dr = distance_range
    return Fitter(fnames, aps, model_dir, extinction_law=law, av_range=list(av_range), distance_range=dr,
                  use_memmap=bool(case.get('memmap', False)), remove_resolved=bool(case.get('remove_resolved', False)))


# ------------------------------------------------------------------------------------------------
# distance-dependent cases
# ------------------------------------------------------------------------------------------------

@st.composite
def grids_3d(draw, nfilt, nmin=1, nmax=6, apmin=1, apmax=8):
    n = draw(st.integers(nmin, nmax))
    nap = draw(st.integers(apmin, apmax))
    aps = draw(increasing(nap, 1., 1e6, 1.05))
    monotone = draw(st.booleans())
    flux = []
    for m in range(n):
        per_filter = []
        for j in range(nfilt):
            if monotone:
                base = draw(logfloat(1e-4, 1e4))
                inc = draw(st.lists(st.floats(0., 1., allow_nan=False), min_size=nap, max_size=nap))
                row, acc = [], base
                for a in range(nap):
                    acc = acc * (1. + inc[a])
                    row.append(acc)
            else:
                row = draw(st.lists(logfloat(1e-4, 1e4), min_size=nap, max_size=nap))
            per_filter.append(row)
        flux.append(per_filter)
    names = draw(model_names(n))
    return {'names': names, 'apertures': aps, 'flux': flux, 'monotone': monotone}


NICE = [1., 1.2, 1.5, 2., 2.5, 3., 4., 5., 6., 8.]


def nice_at_least(x):
    """the smallest 'typed' number d x 10^k (d from NICE) that is >= x"""
    k = int(math.floor(math.log10(x)))
    for kk in (k, k + 1):
        for d in NICE:
            v = float('%ge%d' % (d, kk))
            if v >= x:
                return v
    return float('1e%d' % (k + 2))


@st.composite
def distance_setup(draw, apertures, nfilt, step=None, shapes=('many', 'integer_ratio', 'beyond', 'within_step', 'single',
                                                              'typed_decade')):
    """theta per filter, distance range, logd_step; theta*dmin >= (1+1e-9)*smallest aperture by construction."""
    if step is None:
        step = draw(st.one_of(st.sampled_from([0.02, 0.025, 0.1, 0.5, 1.0]), logfloat(0.005, 1.)))
    shape = draw(st.sampled_from(list(shapes)))
    theta = draw(st.lists(st.floats(0.1, 30., allow_nan=False), min_size=nfilt, max_size=nfilt))
    if draw(st.booleans()):
        # filters usually share a few angular apertures (e.g. 3" for all IRAC bands)
        pool = [theta[0], theta[0] * draw(st.sampled_from([1., 2., 0.5]))]
        theta = [draw(st.sampled_from(pool)) for _ in range(nfilt)]
    amin, amax = apertures[0], apertures[-1]
    # smallest distance allowed [kpc]: theta_min * d * 1000 >= amin
    dlow = amin * (1. + 1e-6) / (min(theta) * 1000.)
    if shape == 'beyond':
        dmin = max(dlow, draw(st.floats(0.5, 2., allow_nan=False)) * amax / (min(theta) * 1000.))
    else:
        dmin = dlow * draw(logfloat(1., 1e3))
    if shape == 'single':
        dmax = dmin
    elif shape == 'within_step':
        dmax = dmin * 10. ** (step * draw(st.floats(0.05, 0.95, allow_nan=False)))
    elif shape == 'integer_ratio':
        dmax = dmin * 10. ** (step * draw(st.integers(1, 12)))
    else:
        dmax = dmin * 10. ** draw(st.floats(0.01, min(2.5, 40 * step), allow_nan=False))
    unit = draw(st.sampled_from(['kpc', 'kpc', 'pc', 'cm']))
    out = {'step': step, 'theta': theta, 'dmin_kpc': dmin, 'dmax_kpc': dmax, 'unit': unit, 'shape': shape}
    if shape == 'typed_decade':
        # a range as a person types it: round numbers in pc or kpc spanning one or two decades (or a factor 2 / 5), so
        # that with the usual steps the range is a whole number of steps up to the rounding of the unit conversion
        unit = draw(st.sampled_from(['pc', 'pc', 'kpc']))
        fac = 1e-3 if unit == 'pc' else 1.
        lo = nice_at_least(dmin / fac)
        hi = float(repr(lo * draw(st.sampled_from([10., 10., 100., 2., 5.]))))
        out.update({'unit': unit, 'typed': [lo, hi], 'dmin_kpc': lo * fac, 'dmax_kpc': hi * fac})
    return out


@st.composite
def fit_case_3d(draw, max_models=6, max_filters=5, max_sources=4, formats=('v1', 'v1', 'v2name', 'v2wav', 'v2mixed'), apmin=1,
                ignored='positive', repeat_filter=False, setup_kwargs=None):
    law = draw(laws())
    filters = draw(fit_filters(law, 1, max_filters))
    nf = len(filters)
    k = of.extinction_pattern(law['wav'], law['chi'], [f['wav'] for f in filters])
    if all(kk == 0. for kk in k):
        filters[0]['wav'] = 0.55 if not any(abs(f['wav'] - 0.55) < 1e-6 for f in filters[1:]) else 0.5501
        k = of.extinction_pattern(law['wav'], law['chi'], [f['wav'] for f in filters])
    j0 = None
    if repeat_filter and draw(st.integers(0, 3)) == 0:
        # the same band measured through two angular apertures: the filter is listed twice
        j0 = draw(st.integers(0, nf - 1))
        filters.append(dict(filters[j0]))
        k = list(k) + [k[j0]]
        nf += 1
    grid = draw(grids_3d(nf, 1, max_models, apmin=apmin))
    setup = draw(distance_setup(grid['apertures'], nf, **(setup_kwargs or {})))
    if j0 is not None:
        for m in range(len(grid['names'])):
            grid['flux'][m][nf - 1] = list(grid['flux'][m][j0])
        if setup['theta'][nf - 1] == setup['theta'][j0]:
            setup['theta'][nf - 1] = setup['theta'][j0] * 2.5
    # log fluxes near the middle of the grid for planting photometry
    dmid = math.sqrt(setup['dmin_kpc'] * setup['dmax_kpc'])
    logmodels = []
    for m in range(len(grid['names'])):
        row = []
        for j in range(nf):
            fl = of.aperture_flux(grid['apertures'], grid['flux'][m][j], max(setup['theta'][j] * dmid * 1000., grid['apertures'][0]))
            row.append(math.log10(fl / dmid ** 2))
        logmodels.append(row)
    ns = draw(st.integers(1, max_sources))
    srcs = [draw(sources(nf, k=k, logmodels=logmodels, distance_mode=True, ignored=ignored)) for _ in range(ns)]
    fmt = draw(st.sampled_from(formats))
    if fmt == 'v2wav' and draw(st.integers(0, 3)) == 0:
        grid['names'] = long_names(grid['names'])
    memmap = draw(st.integers(0, 9)) == 0 if fmt != 'v1' else False
    counts = ([draw(st.integers(1, len(grid['apertures']))) for _ in range(nf)]
              if fmt in ('v1', 'v2name') and draw(st.integers(0, 2)) == 0 else None)
    if counts and j0 is not None:
        counts[nf - 1] = counts[j0]     # one file per filter name
    return {'format': fmt, 'memmap': memmap, 'law': law, 'filters': filters, 'grid': grid, 'sources': srcs,
            'setup': setup, 'av_ranges': [draw(av_ranges())], 'theta': setup['theta'],
            'ap_storage': draw(st.sampled_from(['asc', 'asc', 'asc', 'desc', 'shuffled'])),
            # every convolved/<filter>.fits carries its own APERTURES table: a filter may tabulate only the first n_j
            # apertures of the common grid (per-file tables; the cube holds one table for all wavelengths)
            'ap_count_by_filter': counts,
            'ap_shuffle': list(draw(st.permutations(list(range(len(grid['apertures'])))))),
            'law_units': draw(st.sampled_from([['um', 'cm2/g'], ['um', 'cm2/g'], ['nm', 'm2/kg']])),
            'ap_unit': draw(st.sampled_from(['AU', 'AU', 'pc', 'cm'])),
            'compress': draw(st.sampled_from([None, None, None, None, 'convolved', 'parameters', 'both'])),
            'conf_style': draw(st.sampled_from([0, 0, 0] + list(range(pkgio.N_CONF_STYLES)))),
            # 'v2mixed': a cube package whose filters are given partly by name (convolved files) and partly as wavelengths
            'by_name': [draw(st.booleans()) for _ in range(nf)],
            # the unit the cube / the convolved files are stored in
            'cube_unit': draw(st.sampled_from(['mJy', 'mJy', 'Jy'])), 'conv_unit': draw(st.sampled_from(['mJy', 'mJy', 'Jy']))}


AP_UNIT_FACTOR = {'AU': 1., 'pc': 1. / of.PC_AU, 'cm': 1.495978707e13}


def tables_3d(case, m):
    """-> (flux_table[j][a], aperture table(s)) of model m as the package tabulates them (per filter when they differ)"""
    grid = case['grid']
    counts = case.get('ap_count_by_filter')
    if not counts or case['format'] == 'v2wav':
        return grid['flux'][m], grid['apertures']
    return ([grid['flux'][m][j][:counts[j]] for j in range(len(counts))],
            [grid['apertures'][:counts[j]] for j in range(len(counts))])


def build_package_3d(model_dir, case):
    grid = case['grid']
    names = grid['names']
    filters = case['filters']
    fmt = case['format']
    nap = len(grid['apertures'])
    # the aperture table may be STORED in any order (the abstract grid stays ascending)
    storage = case.get('ap_storage', 'asc')
    aidx = list(range(nap))
    if storage == 'desc':
        aidx = aidx[::-1]
    elif storage == 'shuffled':
        aidx = list(case['ap_shuffle'])
    comp = case.get('compress')
    pkgio.write_conf(model_dir, True, case['setup']['step'], version=None if fmt == 'v1' else 2,
                     style=case.get('conf_style', 0))
    pkgio.write_parameters(model_dir, names, {'par1': [float(i) for i in range(len(names))]}, gz=comp in ('parameters', 'both'),
                           width=max([30] + [len(x) for x in names]))
    cunit, vunit = case.get('conv_unit', 'mJy'), case.get('cube_unit', 'mJy')
    cfac, vfac = (1e-3 if cunit == 'Jy' else 1.), (1e-3 if vunit == 'Jy' else 1.)
    # a filter listed twice (same band, two apertures) is ONE file / one cube slice
    seen = set()
    uniq = [j for j, f in enumerate(filters) if not (f['name'] in seen or seen.add(f['name']))]
    if fmt in ('v1', 'v2name', 'v2mixed'):
        counts = case.get('ap_count_by_filter')
        for j in uniq:
            f = filters[j]
            jidx = aidx if not counts else [a for a in aidx if a < counts[j]]
            fl = [[grid['flux'][m][j][a] * cfac for a in jidx] for m in range(len(names))]
            er = [[0.05 * v for v in row] for row in fl]
            pkgio.write_convolved(model_dir, f['name'], names, f['wav'], [grid['apertures'][a] for a in jidx], fl, er,
                                  gz=comp in ('convolved', 'both'), unit=cunit)
    if fmt != 'v1':
        order = sorted(uniq, key=lambda j: filters[j]['wav'])
        wav = [tabulated_wav(filters[j]) for j in order]
        val = [[[grid['flux'][m][j][a] * vfac for j in order] for a in aidx] for m in range(len(names))]
        unc = [[[0.05 * v for v in row] for row in mod] for mod in val]
        unit = case.get('ap_unit', 'AU')
        aps = [grid['apertures'][a] * AP_UNIT_FACTOR[unit] for a in aidx]
        cwu, cwf = CUBE_WAV_UNITS[case.get('cube_wav_unit', 'um')]
        pkgio.write_cube(os.path.join(model_dir, 'flux.fits'), names, [w * cwf for w in wav], aps, val, unc, ap_unit=unit,
                         valid=cube_valid_flags(case), val_unit=vunit, wav_unit=cwu)


def distance_range_quantity(setup):
    from astropy import units as u
    import numpy as np
    if setup.get('typed'):
        return np.array(setup['typed']) * {'pc': u.pc, 'kpc': u.kpc}[setup['unit']]
    dr = np.array([setup['dmin_kpc'], setup['dmax_kpc']]) * u.kpc
    if setup['unit'] == 'kpc':
        return dr
    return dr.to({'pc': u.pc, 'cm': u.cm}[setup['unit']])
